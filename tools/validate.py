#!/usr/bin/env python3
"""Validates MANIFEST.json and every evidence file against the schemas (tooling venv)."""
import json, sys, glob, jsonschema
ok = True
try:
    jsonschema.validate(json.load(open('/verif/MANIFEST.json')), json.load(open('/root/.vp/MANIFEST.schema.json')))
    print("MANIFEST.json valid")
except Exception as e:
    ok = False; print("MANIFEST.json INVALID:", e)
es = json.load(open('/root/.vp/EVIDENCE.schema.json'))
for f in sorted(glob.glob('/verif/evidence/*.json')):
    try:
        d = json.load(open(f)); jsonschema.validate(d, es)
        cov = d['coverage']
        print(f"{f}: valid tier={d['tier']} evals={cov['evaluations']} distinct={cov['distinct_nontrivial']} samples={len(cov['samples'])} violations={d.get('violations')}")
    except Exception as e:
        ok = False; print(f, "INVALID:", str(e)[:300])
sys.exit(0 if ok else 1)
