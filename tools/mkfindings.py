#!/usr/bin/env python3
"""Writes /verif/known_findings.json (committed, read-only at run time).
Format of the human-readable line per entry: "fixed: property=<id> <commit> <what failed>"."""
import json
F = [
 ("5587271", ["C02","C01","C04"], "send with an overdrawn account in the source produced negative postings (a=-5: a->b -5); send [USD *] from a negative balance posted a negative amount"),
 ("cf25998", ["C01","C04","C03"], "source={@a @a} with a=10 sent 20 from @a (every mention saw the statement-start balance)"),
 ("5f8b196", ["C05","C02"], "destination {max [USD -5] to @a remaining to @b} produced world->a -5, world->b 25"),
 ("ce348d4", ["C07","C02"], "kept amount larger than the next sender's share made that sender negative (a->b -5, c->b 10 instead of c->b 5)"),
 ("a219a90", ["C08","C01"], "save on a negative balance raised it to zero, enabling overdraft beyond the granted bound"),
 ("3c3aec5", ["C10","C11","C01"], "balance cache replaced by the answer of a later store request (balance()/overdraft() origins forgotten); interpreter wrote into the store's own maps (caller data mutated, data race when a StaticStore is shared)"),
 ("facc786", ["C14"], "number literal beyond int range panicked the parser (\"Invalid number\")"),
 ("c7fa107", ["C02"], "account variable/metadata value \"\" or \"<kept>\" accepted: empty account name posted / funds silently vanish"),
 ("6914cc2", ["C13","C14","C06"], "percentage literal read with base prefixes and float denominator: 0.10% = 8/10000, 08% panics"),
 ("f526a62", ["C13"], "portion variable \"1/010\" read as 1/8 (big.Rat.SetString base prefixes)"),
 ("639782d", ["C12","C18","C14"], "portion literal n/0 panicked with division by zero at run time and in the checker"),
 ("8156b70", ["C15"], "range end computed in bytes for tokens with non-ASCII text (string literals, syntax errors)"),
 ("1373211", ["C16"], "checker reported InvalidUnboundedAccount on a bounded overdraft source under send [A *]"),
 ("f3f4d4f", ["C17"], "checker did not type operands/result of + and -: clean check, TypeError at run time (e.g. source = @a + 1)"),
 ("245667e", ["C18"], "analysis.CheckSource nil-dereferenced on `vars { number = balance(@a, USD) }` (declaration without a name)"),
 ("2466e4f", ["C17","C16"], "self-referencing origin `account $a = meta($a, \"k\")` checked clean but failed at run time with an unbound variable (reported by a seeding sub-agent, reproduced by C17's origin-self-reference edit)"),
 ("09294be", ["C10","C11"], "balance(@world, A) / overdraft(@world, A) read whatever a superset / Static store had put into the cache for @world although it is never requested (found by a bug-hunt sub-agent; reproduced by C10 after origins on @world and a @world sheet entry were added)"),
 ("63fb93d", ["C16","C19"], "variables in surplus call arguments were neither reported when undeclared nor counted as uses (found by a bug-hunt sub-agent; reproduced by C16's extra-argument-use mutation)"),
 ("03f6668", ["C13"], "a p.q% portion text with more than a million decimals was exact as a literal but rejected as a variable (big.Rat.SetString exponent limit) (found by a bug-hunt sub-agent; reproduced by C13 case huge/1000001)"),
 ("e0e50b5", ["C19"], "hover / definition on the second of two touching tokens ($a$b) answered with the first (inclusive range end) (found by a bug-hunt sub-agent; reproduced by C19's navigation monitor once layouts glue $, @ and string tokens)"),
 ("1c4e09b", ["C20","C13"], "Monetary.MarshalJSON did not escape the asset: CLI JSON decoded to another text or the encoder crashed for assets containing a backslash / quote / control character (found by a bug-hunt sub-agent; reproduced by C20's odd-asset cases)"),
 ("0114a1b", ["C20"], "`numscript run` ignored the decode error of a -b / -m / -v file: a balances file with one amount written 1e+21 (or 10.0, or a byte order mark in front) was dropped as a whole and the script ran on empty data, printing other postings (or no error) with exit status 0 (found by a second-round bug-hunt sub-agent; reproduced by C20's file-channel notation cases: sig run-result-differs:files / run-exit-status:error)"),
 ("b975975", ["C19","C18"], "textDocument/didChange with an empty contentChanges array panicked (index out of range [-1]) and the language server process died: no later request was answered (found by a second-round bug-hunt sub-agent; reproduced by C19's change-with-no-content-changes requests: sig panic:lsp.Handle)"),
 ("e6ff71c", ["C02","C06"], "allotment with `remaining` and other portions above one produced a negative posting (world->c -3) (reported by a seeding sub-agent, reproduced by C02's oversum stratum)"),
]
out = {"_comment": "Read-only at run time. status=fixed entries are informational and suppress nothing; a status=known entry would match a violation by property + signature (+ optional input substring). No known (unrepaired) finding exists at present.", "findings": []}
lines = []
for commit, props, what in F:
    for p in props[:1]:
        out["findings"].append({"status": "fixed", "property": p, "also_observed_by": props[1:], "commit": commit, "what": what,
                                "line": f"fixed: property={p} {commit} {what}"})
        lines.append(f"fixed: property={p} {commit} {what}")
json.dump(out, open('/verif/known_findings.json', 'w'), indent=1, ensure_ascii=False)
print("\n".join(lines))
