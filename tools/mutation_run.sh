#!/bin/bash
# Source-level mutation run (self-validation, DESIGN §8/§11.3): for every STRIDE-th mutant of the
# listed repository files that still builds and still passes the repository's own test suite, run
# the quick checks that observe that file until one raises a VIOLATION.
#   tools/mutation_run.sh [stride] [offset] > results.tsv
# Works on one scratch worktree of /repo (never on /repo), with its own Go build cache; both are
# removed at the end.
set -u
STRIDE="${1:-3}"; OFFSET="${2:-0}"
HERE="$(cd "$(dirname "$0")/.." && pwd)"
export GOFLAGS=-mod=mod GOPROXY=off GOSUMDB=off GOTOOLCHAIN=local
TAG="${MUT_TAG:-$STRIDE-$OFFSET}"
export GOCACHE=/var/tmp/verif-mut-gocache-$TAG
BIN=/var/tmp/verif-mutate-bin-$TAG
WT="$(mktemp -d /var/tmp/mutwt-XXXXXX)"; rmdir "$WT"
OUT="$(mktemp -d /var/tmp/mutout-XXXXXX)"
git -C /repo worktree add -q --detach "$WT" HEAD || exit 2
trap 'git -C /repo worktree remove --force "$WT" 2>/dev/null; rm -rf "$WT" "$OUT" "$GOCACHE" $BIN' EXIT
(cd "$HERE/tools/mutate" && go build -o $BIN .) || exit 2
LEDGER="C03 C04 C05 C07 C02 C01 C08 C09 C10 C12 C06 C13 C11"
declare -A CHECKS=(
 [internal/interpreter/interpreter.go]="$LEDGER"
 [internal/interpreter/reconciler.go]="C07 C03 C05 C02 C04 C09 C01 C11"
 [internal/interpreter/batch_balances_query.go]="C10 C03 C01 C08 C12 C11"
 [internal/interpreter/evaluate_expr.go]="C03 C12 C13 C17 C06"
 [internal/interpreter/infix.go]="C03 C13 C12 C17"
 [internal/interpreter/value.go]="C12 C13 C03 C17 C20"
 [internal/interpreter/args_parser.go]="C12 C17 C13"
 [internal/utils/utils.go]="C04 C05 C03 C12"
 [numscript.go]="C11 C12 C03"
 [internal/parser/parser.go]="C15 C14 C13 C18"
 [internal/parser/range.go]="C14 C15 C18 C19"
 [internal/analysis/check.go]="C16 C17 C18 C19 C20"
 [internal/analysis/hover.go]="C19 C18"
 [internal/analysis/goto_definition.go]="C19 C18"
 [internal/analysis/document_symbols.go]="C19 C18"
 [internal/lsp/handlers.go]="C19"
 [internal/cmd/run.go]="C20"
 [internal/cmd/check.go]="C20"
)
FILES="${MUT_FILES:-internal/interpreter/reconciler.go internal/interpreter/batch_balances_query.go internal/interpreter/interpreter.go internal/interpreter/evaluate_expr.go internal/interpreter/infix.go internal/interpreter/value.go internal/interpreter/args_parser.go internal/utils/utils.go numscript.go internal/parser/parser.go internal/parser/range.go internal/analysis/check.go internal/analysis/hover.go internal/analysis/goto_definition.go internal/analysis/document_symbols.go internal/lsp/handlers.go internal/cmd/run.go internal/cmd/check.go}"
count=0
printf "file\tindex\tline\tmutation\tverdict\tdetail\n"
for f in $FILES; do
  git -C "$WT" show "HEAD:$f" > "$OUT/pristine.go"
  n=$($BIN -file "$OUT/pristine.go" -list | wc -l)
  for ((i=OFFSET; i<n; i+=STRIDE)); do
    desc=$($BIN -file "$OUT/pristine.go" -list | sed -n "$((i+1))p")
    line=$(echo "$desc" | cut -f2); what=$(echo "$desc" | cut -f3)
    git -C "$WT" checkout -q -- . 
    $BIN -file "$OUT/pristine.go" -apply $i -out "$WT/$f" || continue
    count=$((count+1))
    if [ $((count % 60)) -eq 0 ]; then go clean -cache >/dev/null 2>&1; fi
    if ! (cd "$WT" && go build ./... ) >/dev/null 2>&1; then printf "%s\t%d\t%s\t%s\tbuild-fails\t\n" "$f" $i "$line" "$what"; continue; fi
    if ! (cd "$WT" && go test -vet=off -count=1 ./... ) >/dev/null 2>&1; then printf "%s\t%d\t%s\t%s\tkilled-by-suite\t\n" "$f" $i "$line" "$what"; continue; fi
    verdict="SURVIVED"; detail=""
    for c in ${CHECKS[$f]}; do
      o=$(cd "$HERE" && VERIF_REPO="$WT" VERIF_OUT_DIR="$OUT" VERIF_COVER=0 ./check $c quick 2>&1); rc=$?
      if [ $rc -eq 1 ]; then verdict="killed-by-$c"; detail=$(echo "$o" | grep -m1 "sig=" | sed 's/^ *//'); break; fi
      if [ $rc -eq 2 ]; then detail="$detail inconclusive:$c"; fi
    done
    printf "%s\t%d\t%s\t%s\t%s\t%s\n" "$f" $i "$line" "$what" "$verdict" "$detail"
    rm -rf "$OUT"/replays
  done
done
