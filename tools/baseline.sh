#!/bin/bash
# Runs the repository's own test suite (hooks off: no build tag) and compares the set of passing
# top-level tests with /root/.vp/BASELINE.json's stable_pass list.
export GOFLAGS=-mod=mod GOPROXY=off GOSUMDB=off GOTOOLCHAIN=local
REPO="${1:-/repo}"
cd "$REPO" || exit 2
go test -json -vet=off -count=1 -timeout 25m ./... > /var/tmp/verif-baseline.$$.json 2>/var/tmp/verif-baseline.$$.err
python3 - /var/tmp/verif-baseline.$$.json <<'PY'
import json,sys
passed=set(); failed=set()
for l in open(sys.argv[1]):
    try: e=json.loads(l)
    except Exception: continue
    t=e.get('Test')
    if not t: continue
    k=e['Package']+'::'+t
    if e.get('Action')=='pass': passed.add(k)
    if e.get('Action')=='fail': failed.add(k)
try:
    base=set(json.load(open('/root/.vp/BASELINE.json'))['stable_pass'])
except Exception:
    base=None
print(f"passed={len(passed)} failed={len(failed)}")
if failed: print("FAILED:", sorted(failed))
if base is not None:
    missing=base-passed
    print(f"baseline={len(base)} missing_from_pass={len(missing)}")
    if missing: print("MISSING:", sorted(missing)[:20])
    sys.exit(1 if (missing or failed) else 0)
sys.exit(1 if failed else 0)
PY
rc=$?
rm -f /var/tmp/verif-baseline.$$.json /var/tmp/verif-baseline.$$.err
exit $rc
