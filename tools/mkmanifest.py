#!/usr/bin/env python3
"""Regenerates /verif/MANIFEST.json from the table below."""
import json, os
HERE = os.path.dirname(os.path.dirname(os.path.abspath(__file__)))
TB = "Trusted base: the harness's generators, printer and oracle (written from the property, DESIGN §4), the Go runtime, and the observation points named in DESIGN §3.1 (numscript.Parse/Run, analysis.*, lsp.Handle, the harness-owned Store, the built CLI). Held on the executions driven, nothing more."
checks = [
 ("C01","ledger","exploration","§5 C01","runtime replay monitor: postings of every successful run replayed on the starting sheet, per-account lower bound asserted after each posting (stratified generated workloads + regression corpus)",
  "Exploration: every successful execution of ~10^5 (quick) / 10^6+ (thorough) generated scripts is observed at the API boundary and its postings are replayed against min(start, −largest granted overdraft). The bound is checked on the real output, so the verdict needs no reference semantics; reach comes from strata that force repeated/aliased accounts, negative balances, saves and chains."),
 ("C02","ledger","exploration","§5 C02","runtime monitor inspecting every posting (sign, names, asset of the producing statement attributed by prefix executions)",
  "Exploration: every posting of every successful run is inspected; statement attribution is obtained at the boundary by executing every prefix of the script. Hostile account names enter through variables and metadata."),
 ("C03","ledger","exploration","§5 C03","reference-model monitor: real outcome and per-statement totals vs. an executable reference draw, amounts tuned onto the supply frontier",
  "Exploration with an independent executable reference semantics as online oracle, both directions (no spurious failure, no missed failure, exact totals, zero result on error); each parse result is also run a second time with other variable values."),
 ("C04","ledger","exploration","§5 C04","reference-model monitor on per-account debits + small-scope exhaustive sweep of source trees × balances × need × mode",
  "Exploration + exhaustive small scope: debit row sums of every statement vs. the reference greedy draw; all source trees of the listed forms over 2 accounts with small balances/caps/needs in fixed and send-all mode are enumerated completely."),
 ("C05","ledger","exploration","§5 C05","reference-model monitor on per-account credits and conservation + exhaustive sweep of ordered destinations",
  "Exploration + exhaustive small scope: credit column sums and credited+kept=sent per statement; all ordered destinations with ≤ 3 clauses (caps −1..4, kept / nested targets) × amounts 0..8 enumerated."),
 ("C06","ledger","exploration","§5 C06","exact-rational oracle over exhaustively enumerated portion vectors × totals, observed as credits/debits of single-allotment scripts",
  "Exhaustive for every composition of every denominator ≤ 12 (thorough ≤ 24) into 2–4 clauses × totals 0..60 (0..200), both sides, with and without `remaining`; random beyond (10^40 totals, every number of decimals 1..40, word-boundary terms, terms beyond a machine word used twice, variables, bad sums incl. nested under zero shares, second runs of one parse result with other portion values)."),
 ("C07","ledger","exploration","§5 C07","reference FIFO-pairing monitor on the full source×destination flow matrix + interpreter.Reconcile driven directly on enumerated sender/receiver lists",
  "Exploration + exhaustive small scope (all sender/receiver lists up to length 3 (thorough 4), amounts 1..3, kept anywhere) directly against Reconcile; allotments whose `remaining` clause stands at any position (strata rem-anywhere*)."),
 ("C08","ledger","exploration","§5 C08","reference-model monitor (save rule) over systematic statement sequences × balances + save-heavy random scripts",
  "All sequences of length ≤ 3 over a 15-statement alphabet (saves of every kind, sends from/to the saved account, overdraft, send-all) × 5 balances, plus random."),
 ("C09","ledger","exploration","§5 C09","metamorphic monitor over real executions: whole script vs. every split into two runs on balances updated by the first run's real postings and the save rule",
  "Metamorphic: only the real interpreter is executed (3+ executions per script and split point); the save rule is the only model ingredient."),
 ("C10","ledger","exploration","§5 C10","differential monitor over four harness-owned Store behaviours + recorded query log",
  "Differential: the same case against exact / sparse / superset / StaticStore stores must agree; the store is the library's only outward call, so the query log is the complete record of what was asked for."),
 ("C11","ledger","exploration","§5 C11","Go race detector (-race build) over goroutines sharing one ParseResult/vars/StaticStore + repetition, purity (deep before/after renderings) and flag monitors",
  "Race detector on a -race build with concurrent runs sharing every input the API lets callers share; yields injected at the store boundary (the only suspension point). Happens-before detection does not need the bad interleaving to occur, only both accesses."),
 ("C12","ledger","fault_enumeration","§5 C12","fault injection: single planted fault with class oracle; store failure injected at EVERY call index k ≤ N; crash guard + atomicity on ill-typed scripts",
  "Fault enumeration: for each generated script the number N of store calls is measured and all N single-call failures are injected; planted static/dynamic faults carry the expected error class; zero-denominator literals in 12 spellings at 6 positions."),
 ("C13","ledger","exploration","§5 C13","hand-written base-ten oracle over exhaustively enumerated portion texts (literal and variable form, two observation channels) + metadata round-trip monitor over two executions",
  "Exhaustive for digit strings ≤ 2 (thorough ≤ 3) and percentages |p| ≤ 3, |q| ≤ 2 (3); random long numerals; round trips of all six types."),
 ("C14","parse","exploration","§5 C14","crash guard + watchdog + independent CFG recogniser (over the generated lexer's tokens) as validity oracle; every prefix, token/byte mutants, soups",
  "Exploration; termination restated as bounded progress (60 s per ≤ 64 KiB input, confirmed by isolated re-run)."),
 ("C15","parse","exploration","§5 C15","round-trip monitor: generator tree → printer with recorded spans under 6 layouts → parser → parallel tree walk (structure, literal values, ranges) + geometric check",
  "Exploration over a grammar-complete generator; every node's Range compared with the span the printer recorded, in code points."),
 ("C16","analysis","exploration","§5 C16","no-false-error monitor on statically valid generated scripts + independent name-resolution model predicting the exact multiset of name diagnostics on name mutants",
  "Exploration; the name model is derived from the generator's tree and the printer's token spans."),
 ("C17","analysis","exploration","§5 C17","implication monitor over (static check, execution) pairs of the same text after one type-breaking edit, control = unedited script checks clean and runs",
  "Exploration; error classes taken from the dynamic type of the returned error."),
 ("C18","analysis","exploration","§5 C18","crash guard + watchdog over CheckSource ×2, GetSymbols, HoverOn and GotoDefinition at every cursor position; geometric check of diagnostics; set comparison of two analyses",
  "Exploration over the C14 text family (every prefix of generated scripts, token/byte damage, soups) plus portion literals with zero parts at every position a value can be written."),
 ("C19","lsp","exploration","§5 C19","history monitor: every response and published notification compared with a fresh server holding only the latest text (unique version markers); navigation monitor at every cursor position against the generator's own knowledge",
  "Exhaustive for histories of length ≤ 3 (thorough ≤ 4) over a 48-operation alphabet (incl. change notifications without content changes); random long histories; sequential histories are the whole space (single server loop). Published diagnostics and symbol answers are also compared with analysis.CheckSource of the latest text; navigation is checked in damaged documents against the parser's own tree of the damaged text."),
 ("C20","cli","exploration","§5 C20","process monitor: the built binary's exit status / stdout / stderr compared with the in-process library on the same inputs through three input channels",
  "Exploration over child processes of the binary built from the working tree; inputs also as other programs write them (other JSON escapes, exponent / decimal-point numbers, byte order marks), files with a given number of errors."),
]
props = {json.loads(l)["id"] for l in open(os.path.join(HERE, "properties.jsonl"))}
m = {
 "version": 1,
 "setup_cmd": "./tools/setup.sh",
 "hooks": {
  "guard": "verif",
  "enable": "no source hooks are needed: every deciding observation is made at an API boundary the repository already exposes (DESIGN §3.1); ./check still builds with -tags verif",
  "baseline_off_cmd": "./tools/baseline.sh",
  "source_commits": [],
  "add_only": True,
 },
 "engines": [
  {"name": "ledger", "path": "harness/eng/ledger", "serves_properties": ["C%02d" % i for i in range(1, 14)], "kind_free_text": "runtime monitors over numscript.Parse/Run with harness-owned stores; reference ledger semantics; -race build for C11"},
  {"name": "parse", "path": "harness/eng/parse", "serves_properties": ["C14", "C15"], "kind_free_text": "crash/termination monitor + CFG recogniser oracle; round-trip monitor with printer spans"},
  {"name": "analysis", "path": "harness/eng/analysis", "serves_properties": ["C16", "C17", "C18"], "kind_free_text": "monitors over analysis.CheckSource/HoverOn/GotoDefinition/GetSymbols and check-vs-run implication"},
  {"name": "lsp", "path": "harness/eng/lsp", "serves_properties": ["C19"], "kind_free_text": "history replay against lsp.Handle with stdout capture; navigation monitor"},
  {"name": "cli", "path": "harness/eng/cli", "serves_properties": ["C20"], "kind_free_text": "child-process monitor of the built numscript binary vs. the library"},
 ],
 "checks": [],
 "not_applicable": [],
 "notes": "Every check: ./check <id> <tier> rebuilds its engine from /verif/harness against /repo's working tree in a private scratch directory (removed on exit), shards the deterministic case list (a pure function of VERIF_SEED) over worker processes, and exits 0 / 1 + VIOLATION lines / 2 + INCONCLUSIVE lines. Known findings: /verif/known_findings.json (all entries are 'fixed'; none suppresses anything). Seeded breaking changes used to validate the monitors: /verif/seeded/.",
}
for pid, eng, cat, ref, tech, text in checks:
    m["checks"].append({
      "property_id": pid,
      "quick_cmd": f"./check {pid} quick",
      "thorough_cmd": f"./check {pid} thorough",
      "evidence_file": f"/verif/evidence/{pid}.json",
      "replay_cmd_template": "./check --replay {path}",
      "engine": eng,
      "level_claimed": {"category": cat, "text": text, "design_ref": "DESIGN.md " + ref},
      "level_note": TB,
      "technique": tech,
    })
claimed = {c["property_id"] for c in m["checks"]}
for p in sorted(props - claimed):
    m["not_applicable"].append({"property_id": p, "reason": "no check built yet"})
json.dump(m, open(os.path.join(HERE, "MANIFEST.json"), "w"), indent=1, ensure_ascii=False)
print("checks:", len(m["checks"]), "not_applicable:", len(m["not_applicable"]))
