#!/bin/bash
# Regenerates every evidence file by running each registered quick (or $1=thorough) check in /verif
# against /repo, then validates MANIFEST.json and the evidence files against the schemas.
cd "$(dirname "$0")/.." || exit 2
TIER="${1:-quick}"
bad=0
for i in $(seq -w 1 20); do
  p="C$i"
  o=$(./check $p $TIER 2>&1); rc=$?
  echo "$p rc=$rc $(echo "$o" | grep -E "^$p $TIER" | sed 's/.*evaluations/evaluations/')"
  if [ $rc -ne 0 ]; then bad=1; echo "$o" | grep -E -A2 "^VIOLATION|^INCONCLUSIVE|BUILD FAILED" | cut -c1-500; fi
done
python3-vt tools/validate.py || bad=1
exit $bad
