#!/bin/bash
# Runs every seeded breaking change under /verif/seeded through tools/seedtest.sh (quick tier of
# the property it breaks, or the checks listed in meta.json "expected_checks") and prints a table.
# Exit 0 iff every seed is caught by at least the checks it is expected to be caught by.
cd "$(dirname "$0")/.." || exit 2
fail=0
for d in seeded/*/; do
  [ -f "$d/meta.json" ] || continue
  exp=$(python3 -c 'import json,sys; m=json.load(open(sys.argv[1])); print(" ".join(m.get("expected_checks",[m["property"]])))' "$d/meta.json")
  tier=$(python3 -c 'import json,sys; m=json.load(open(sys.argv[1])); print(m.get("tier_needed","quick"))' "$d/meta.json")
  out=$(SEED_TIER=$tier tools/seedtest.sh "$d" $exp 2>&1); rc=$?
  caught=$(echo "$out" | grep -c "exit=1")
  echo "$(basename $d): rc=$rc $(echo "$out" | grep '^check' | tr '\n' ';')"
  [ $rc -eq 0 ] || fail=1
done
exit $fail
