#!/bin/bash
# Runs every seeded breaking change under /verif/seeded through tools/seedtest.sh (quick tier of
# the property it breaks, or the checks listed in meta.json "expected_checks") and prints a table.
# Exit 0 iff every seed is caught by at least the checks it is expected to be caught by.
#   SELFTEST_JOBS=<n>  seeds tested at the same time (default 4)
cd "$(dirname "$0")/.." || exit 2
one() {
  d="$1"
  [ -f "$d/meta.json" ] || return 0
  exp=$(python3 -c 'import json,sys; m=json.load(open(sys.argv[1])); print(" ".join(m.get("expected_checks",[m["property"]])))' "$d/meta.json")
  tier=$(python3 -c 'import json,sys; m=json.load(open(sys.argv[1])); print(m.get("tier_needed","quick"))' "$d/meta.json")
  out=$(SEED_TIER=$tier tools/seedtest.sh "$d" $exp 2>&1); rc=$?
  echo "$(basename $d): rc=$rc $(echo "$out" | grep '^check' | tr '\n' ';')"
}
export -f one
ls -d seeded/*/ | xargs -P "${SELFTEST_JOBS:-4}" -I{} bash -c 'one {}' | tee /dev/stderr | grep -v ": rc=0 " | grep -q . && exit 1
exit 0
