#!/bin/bash
# Silence sweep: every quick check at several seeds on the unchanged tree; prints one line per run
# and every VIOLATION / INCONCLUSIVE line. Evidence and replays go to a scratch output directory so
# that /verif/evidence is not disturbed.
cd "$(dirname "$0")/.." || exit 2
SEEDS="${*:-2 3 4 5}"   # SWEEP_PROPS="C01 C02" restricts the properties, SWEEP_TIER=thorough the tier
TIER="${SWEEP_TIER:-quick}"
OUT="$(mktemp -d /var/tmp/verif-sweep-XXXXXX)"; trap 'rm -rf "$OUT"' EXIT
bad=0
for s in $SEEDS; do
  for p in ${SWEEP_PROPS:-C01 C02 C03 C04 C05 C06 C07 C08 C09 C10 C11 C12 C13 C14 C15 C16 C17 C18 C19 C20}; do
    o=$(VERIF_SEED=$s VERIF_OUT_DIR="$OUT" ./check $p $TIER 2>&1); rc=$?
    echo "seed=$s $p rc=$rc $(echo "$o" | grep -E "^$p $TIER" | sed 's/.*evaluations/evaluations/')"
    if [ $rc -ne 0 ]; then bad=1; echo "$o" | grep -E -A2 "^VIOLATION|^INCONCLUSIVE|BUILD FAILED" | cut -c1-600; fi
  done
done
exit $bad
