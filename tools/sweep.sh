#!/bin/bash
# Silence sweep: every quick check at several seeds on the unchanged tree; prints one line per run
# and every VIOLATION / INCONCLUSIVE line. Evidence and replays go to a scratch output directory so
# that /verif/evidence is not disturbed.
cd "$(dirname "$0")/.." || exit 2
SEEDS="${*:-2 3 4 5}"
TIER="${SWEEP_TIER:-quick}"
OUT="$(mktemp -d /var/tmp/verif-sweep-XXXXXX)"; trap 'rm -rf "$OUT"' EXIT
bad=0
for s in $SEEDS; do
  for i in $(seq -w 1 20); do
    p="C$i"
    o=$(VERIF_SEED=$s VERIF_OUT_DIR="$OUT" ./check $p $TIER 2>&1); rc=$?
    echo "seed=$s $p rc=$rc $(echo "$o" | grep -E "^$p $TIER" | sed 's/.*evaluations/evaluations/')"
    if [ $rc -ne 0 ]; then bad=1; echo "$o" | grep -E -A2 "^VIOLATION|^INCONCLUSIVE|BUILD FAILED" | cut -c1-600; fi
  done
done
exit $bad
