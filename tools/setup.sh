#!/bin/bash
# Offline setup after a fresh restore: warm the Go build cache by building every engine once.
export GOFLAGS=-mod=mod GOPROXY=off GOSUMDB=off GOTOOLCHAIN=local
HERE="$(cd "$(dirname "${BASH_SOURCE[0]}")/.." && pwd)"
S="$(mktemp -d /var/tmp/verif-setup-XXXXXX)"; trap 'rm -rf "$S"' EXIT
mkdir -p "$S/h" && cp -r "$HERE/harness/." "$S/h/" && cp /repo/go.sum "$S/h/go.sum"
cd "$S/h" || exit 1
for e in eng/*/; do
  go build -tags verif -o "$S/bin-$(basename $e)" "./$e" || exit 1
done
go build -tags verif -race -o "$S/bin-ledger-race" ./eng/ledger || exit 1
(cd /repo && go build -o "$S/numscript" ./internal/numscript) || exit 1
mkdir -p "$HERE/evidence"
echo setup ok
