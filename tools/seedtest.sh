#!/bin/bash
# Validates one seeded breaking change and runs checks against it.
#   tools/seedtest.sh <seed-dir> [check-ids...]      (default: the property in meta.json, quick tier)
# <seed-dir> holds patch.diff, the demonstration (demo_test.go or demo.sh) and meta.json.
# A scratch worktree of /repo (HEAD) is created outside /repo and /verif, the patch applied there,
# and removed together with its build output at the end. /repo itself is never touched.
set -u
export GOFLAGS=-mod=mod GOPROXY=off GOSUMDB=off GOTOOLCHAIN=local
HERE="$(cd "$(dirname "$0")/.." && pwd)"
D="$(cd "$1" && pwd)"; shift
PROP=$(python3 -c 'import json,sys; print(json.load(open(sys.argv[1]))["property"])' "$D/meta.json")
DEMO=$(python3 -c 'import json,sys; print(json.load(open(sys.argv[1])).get("demo_path",""))' "$D/meta.json")
CHECKS=("$@"); [ ${#CHECKS[@]} -eq 0 ] && CHECKS=("$PROP")
TIER="${SEED_TIER:-quick}"
WT="$(mktemp -d /var/tmp/seedwt-XXXXXX)"; rmdir "$WT"
for try in 1 2 3 4 5; do git -C /repo worktree add -q --detach "$WT" HEAD 2>/dev/null && break; sleep $((try*2)); done
[ -d "$WT" ] || exit 2
cleanup() { git -C /repo worktree remove --force "$WT" 2>/dev/null; rm -rf "$WT"; }
trap cleanup EXIT
status=0
echo "== seed $D (property $PROP)"
# demo without the patch
if [ -n "$DEMO" ] && [ -f "$D/demo_test.go" ]; then
  mkdir -p "$WT/$(dirname "$DEMO")"; cp "$D/demo_test.go" "$WT/$DEMO"
  pkg="./$(dirname "$DEMO")"
  racef=""; grep -q '"needs_race": *true' "$D/meta.json" && racef="-race"
  if (cd "$WT" && go test $racef -vet=off -count=1 "$pkg" >/dev/null 2>&1); then echo "demo passes without patch: yes"; else echo "demo passes without patch: NO"; status=3; fi
fi
if ! git -C "$WT" apply "$D/patch.diff"; then echo "patch does not apply"; exit 2; fi
if ! (cd "$WT" && go build ./... ) ; then echo "patched tree does not build"; exit 2; fi
if [ -n "$DEMO" ] && [ -f "$D/demo_test.go" ]; then
  if (cd "$WT" && go test $racef -vet=off -count=1 "$pkg" >/dev/null 2>&1); then echo "demo fails with patch: NO"; status=3; else echo "demo fails with patch: yes"; fi
  rm -f "$WT/$DEMO"
fi
if [ -f "$D/demo.sh" ]; then
  if (cd "$WT" && bash "$D/demo.sh" >/dev/null 2>&1); then echo "demo.sh fails with patch: NO"; status=3; else echo "demo.sh fails with patch: yes"; fi
fi
if "$HERE/tools/baseline.sh" "$WT" >/dev/null 2>&1; then echo "suite passes with patch: yes"; else echo "suite passes with patch: NO"; status=3; fi
for c in "${CHECKS[@]}"; do
  out=$(cd "$HERE" && VERIF_REPO="$WT" VERIF_OUT_DIR="$WT/.verifout" ./check "$c" "$TIER" 2>&1); rc=$?
  sig=$(echo "$out" | grep -m3 "sig=" | sed 's/^ *//' | tr '\n' ' ')
  echo "check $c $TIER: exit=$rc $(echo "$out" | grep -c '^VIOLATION') violation line(s) $sig"
  [ $rc -eq 1 ] || status=1
done
exit $status
