// Command mutate is a small source-level mutation engine for the self-validation of the
// monitors (DESIGN §8): it enumerates mutation sites in one Go file and writes the i-th mutant.
//
//	mutate -file path/to/file.go -list                 prints "<index>\t<line>\t<description>"
//	mutate -file path/to/file.go -apply N -out out.go  writes the N-th mutant to out.go
//
// Operators: relational / equality / arithmetic / logical operator replacement, negated
// conditions, integer literal 0↔1, comparison results of x.Cmp(y) / x.Sign() shifted, statement
// deletion (assignments, expression statements, inc/dec), early `continue`/`break`/`return` removal.
package main

import (
	"flag"
	"fmt"
	"go/ast"
	"go/parser"
	"go/printer"
	"go/token"
	"os"
)

type site struct {
	line  int
	desc  string
	apply func()
}

func main() {
	file := flag.String("file", "", "Go source file")
	list := flag.Bool("list", false, "list mutation sites")
	apply := flag.Int("apply", -1, "apply the N-th mutation")
	out := flag.String("out", "", "output file")
	flag.Parse()
	fset := token.NewFileSet()
	f, err := parser.ParseFile(fset, *file, nil, parser.ParseComments)
	if err != nil {
		fmt.Fprintln(os.Stderr, err)
		os.Exit(2)
	}
	var sites []site
	add := func(pos token.Pos, desc string, fn func()) {
		sites = append(sites, site{fset.Position(pos).Line, desc, fn})
	}
	binSwaps := map[token.Token][]token.Token{
		token.EQL: {token.NEQ}, token.NEQ: {token.EQL},
		token.LSS: {token.LEQ, token.GTR}, token.LEQ: {token.LSS}, token.GTR: {token.GEQ, token.LSS}, token.GEQ: {token.GTR},
		token.ADD: {token.SUB}, token.SUB: {token.ADD},
		token.LAND: {token.LOR}, token.LOR: {token.LAND},
	}
	ast.Inspect(f, func(n ast.Node) bool {
		switch n := n.(type) {
		case *ast.BinaryExpr:
			// skip string concatenation
			if n.Op == token.ADD {
				if bl, ok := n.X.(*ast.BasicLit); ok && bl.Kind == token.STRING {
					return true
				}
				if bl, ok := n.Y.(*ast.BasicLit); ok && bl.Kind == token.STRING {
					return true
				}
			}
			for _, to := range binSwaps[n.Op] {
				be, from, to2 := n, n.Op, to
				add(be.OpPos, fmt.Sprintf("%s -> %s", from, to2), func() { be.Op = to2 })
			}
		case *ast.BasicLit:
			if n.Kind == token.INT && (n.Value == "0" || n.Value == "1") {
				bl := n
				to := "1"
				if bl.Value == "1" {
					to = "0"
				}
				add(bl.Pos(), fmt.Sprintf("literal %s -> %s", bl.Value, to), func() { bl.Value = to })
			}
		case *ast.UnaryExpr:
			if n.Op == token.SUB {
				if bl, ok := n.X.(*ast.BasicLit); ok && bl.Kind == token.INT && bl.Value == "1" {
					ue := n
					add(ue.Pos(), "literal -1 -> 1", func() { ue.Op = token.ADD })
				}
			}
		case *ast.IfStmt:
			is := n
			add(is.Cond.Pos(), "negate condition", func() { is.Cond = &ast.UnaryExpr{Op: token.NOT, X: &ast.ParenExpr{X: is.Cond}} })
		case *ast.BlockStmt:
			for i, st := range n.List {
				i, st, blk := i, st, n
				del := func(what string) {
					add(st.Pos(), "delete "+what, func() { blk.List[i] = &ast.EmptyStmt{Semicolon: st.Pos()} })
				}
				switch s := st.(type) {
				case *ast.AssignStmt:
					if s.Tok != token.DEFINE {
						del("assignment")
					}
				case *ast.ExprStmt:
					del("call statement")
				case *ast.IncDecStmt:
					del("inc/dec")
				case *ast.BranchStmt:
					if s.Tok == token.CONTINUE || s.Tok == token.BREAK {
						del(s.Tok.String())
					}
				}
			}
		case *ast.CaseClause:
			for i, st := range n.Body {
				i, st, cc := i, st, n
				switch s := st.(type) {
				case *ast.AssignStmt:
					if s.Tok != token.DEFINE {
						add(st.Pos(), "delete assignment", func() { cc.Body[i] = &ast.EmptyStmt{Semicolon: st.Pos()} })
					}
				case *ast.ExprStmt:
					add(st.Pos(), "delete call statement", func() { cc.Body[i] = &ast.EmptyStmt{Semicolon: st.Pos()} })
				}
			}
		}
		return true
	})
	if *list {
		for i, s := range sites {
			fmt.Printf("%d\t%d\t%s\n", i, s.line, s.desc)
		}
		return
	}
	if *apply < 0 || *apply >= len(sites) {
		fmt.Fprintln(os.Stderr, "no such mutation")
		os.Exit(2)
	}
	sites[*apply].apply()
	o, err := os.Create(*out)
	if err != nil {
		fmt.Fprintln(os.Stderr, err)
		os.Exit(2)
	}
	defer o.Close()
	if err := printer.Fprint(o, fset, f); err != nil {
		fmt.Fprintln(os.Stderr, err)
		os.Exit(2)
	}
}
