module verifmutate

go 1.22
