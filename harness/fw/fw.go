// Package fw is the plumbing shared by all engines: deterministic case selection, sharding over
// worker processes, crash / hang isolation, violation and evidence bookkeeping, known findings.
//
// An engine binary registers properties and calls Main. The process started by ./check is the
// driver; it re-executes itself as workers (one per shard). A worker that dies names the case
// it was executing in its progress file; the driver confirms the crash by re-running exactly
// that case in a fresh child before reporting it.
package fw

import (
	"bytes"
	"encoding/gob"
	"encoding/json"
	"fmt"
	"os"
	"os/exec"
	"path/filepath"
	"runtime"
	"sort"
	"strconv"
	"strings"
	"sync"
	"sync/atomic"
	"syscall"
	"time"

	"github.com/formancehq/numscript/verifharness/rng"
)

// Prop describes one property check served by an engine.
type Prop struct {
	ID          string
	Level       string // exploration | fault_enumeration
	Rule        string
	Assumptions []string
	// Counters that must be non-zero for the run to count (else INCONCLUSIVE).
	Require []string
	// HangIsViolation: the property statement includes termination (C14, C18).
	HangIsViolation bool
	// CaseLimit is the per-case watchdog in seconds (default 60).
	CaseLimit int
	// MaxWorkers caps the number of worker processes (0 = number of CPUs).
	MaxWorkers int
	Run        func(c *Ctx)
}

// Violation is one observed refutation of a property.
type Violation struct {
	Prop  string `json:"property"`
	Case  string `json:"case"`
	Sig   string `json:"sig"`
	What  string `json:"what"`
	Input any    `json:"input"`
}

type workerOut struct {
	Maxes      map[string]int64
	Evals      int64
	Distinct   []uint64
	Counters   map[string]int64
	Samples    []string // JSON-encoded
	Violations []violationWire
	Done       bool
}

type violationWire struct {
	Prop, Case, Sig, What string
	Input                 string // JSON
}

// Ctx is handed to Prop.Run.
type Ctx struct {
	Prop  string
	Tier  string
	Seed  uint64
	Quick bool

	shard, nshards int
	only           string
	progress       *os.File
	caseStart      atomic.Int64
	caseStartCPU   atomic.Int64
	curCase        atomic.Value

	mu         sync.Mutex
	evals      int64
	distinct   map[uint64]struct{}
	counters   map[string]int64
	maxes      map[string]int64
	samples    []string
	violations []violationWire
	sigSeen    map[string]int
}

// N picks the tier-dependent count.
func (c *Ctx) N(quick, thorough int) int {
	if c.Quick {
		return quick
	}
	return thorough
}

// Want reports whether case (i, id) belongs to this process, and if so marks it as the current
// case (progress file, watchdog).
func (c *Ctx) Want(i int, id string) bool {
	if c.only != "" {
		if id != c.only {
			return false
		}
	} else if c.nshards > 1 && (i%c.nshards) != c.shard {
		return false
	}
	c.begin(id)
	return true
}

func (c *Ctx) begin(id string) {
	c.curCase.Store(id)
	c.caseStartCPU.Store(cpuNanos())
	c.caseStart.Store(time.Now().UnixNano())
	if c.progress != nil {
		b := make([]byte, 256)
		for i := range b {
			b[i] = ' '
		}
		copy(b, id)
		b[255] = '\n'
		c.progress.WriteAt(b, 0)
	}
}

// Case returns the id of the case being executed.
func (c *Ctx) Case() string {
	if v, ok := c.curCase.Load().(string); ok {
		return v
	}
	return ""
}

// Rng returns the generator of the current case (a pure function of seed, property and id).
func (c *Ctx) Rng(id string) *rng.R { return rng.New(c.Seed, c.Prop+"|"+id) }

// Eval counts one execution / evaluation.
func (c *Ctx) Eval() { c.mu.Lock(); c.evals++; c.mu.Unlock() }

// Evals counts n evaluations.
func (c *Ctx) Evals(n int) { c.mu.Lock(); c.evals += int64(n); c.mu.Unlock() }

// Distinct records a non-trivial case under its distinctness key.
func (c *Ctx) Distinct(key string) {
	h := rng.HashString(key)
	c.mu.Lock()
	c.distinct[h] = struct{}{}
	c.mu.Unlock()
}

// Count adds to a named event counter.
func (c *Ctx) Count(name string, n int) {
	c.mu.Lock()
	c.counters[name] += int64(n)
	c.mu.Unlock()
}

// Max keeps the maximum of a named gauge.
func (c *Ctx) Max(name string, v int) {
	c.mu.Lock()
	if int64(v) > c.maxes[name] {
		c.maxes[name] = int64(v)
	}
	c.mu.Unlock()
}

// Sample keeps a written-out case for the evidence file (first few only).
func (c *Ctx) Sample(v any) {
	c.mu.Lock()
	defer c.mu.Unlock()
	if len(c.samples) >= 3 {
		return
	}
	b, err := json.Marshal(v)
	if err != nil {
		b, _ = json.Marshal(fmt.Sprint(v))
	}
	c.samples = append(c.samples, string(b))
}

// WantSample tells whether another sample would be kept.
func (c *Ctx) WantSample() bool {
	c.mu.Lock()
	defer c.mu.Unlock()
	return len(c.samples) < 3
}

// Violation records a refutation. sig identifies the kind/site (used for de-duplication and
// known-findings matching); input is the materialised case.
func (c *Ctx) Violation(sig, what string, input any) {
	c.ViolationOf(c.Prop, sig, what, input)
}

// ViolationOf records a refutation of another property served by the same run.
func (c *Ctx) ViolationOf(prop, sig, what string, input any) {
	c.mu.Lock()
	defer c.mu.Unlock()
	c.sigSeen[sig]++
	if c.sigSeen[sig] > 3 || len(c.violations) >= 200 {
		c.counters["violations_suppressed_duplicates"]++
		return
	}
	b, err := json.Marshal(input)
	if err != nil {
		b, _ = json.Marshal(fmt.Sprint(input))
	}
	id, _ := c.curCase.Load().(string)
	c.violations = append(c.violations, violationWire{Prop: prop, Case: id, Sig: sig, What: what, Input: string(b)})
}

// RunIsolated executes the case id in a process of its own (the engine re-invoked with --only), so
// that the case starts from cold process state, and merges what that process observed. It returns
// false when this process IS such a child (or a replay): the caller then runs the case inline.
func (c *Ctx) RunIsolated(id string) bool {
	if c.only != "" {
		return false
	}
	dir := os.Getenv("VERIF_SCRATCH")
	f, err := os.CreateTemp(dir, "isolated-*.out")
	if err != nil {
		return false
	}
	out := f.Name()
	f.Close()
	defer os.Remove(out)
	exe, err := os.Executable()
	if err != nil {
		return false
	}
	cmd := exec.Command(exe, "--only", c.Prop, c.Tier, strconv.FormatUint(c.Seed, 10), id, out)
	var stderr bytes.Buffer
	cmd.Stderr = &stderr
	runErr := cmd.Run()
	o, rerr := readOut(out)
	if runErr != nil || rerr != nil {
		tail := stderr.String()
		if len(tail) > 3000 {
			tail = tail[len(tail)-3000:]
		}
		c.Violation("fatal:isolated-case:"+fatalSig(tail), fmt.Sprintf("the case run in a process of its own died: %v ⏎ %s", runErr, tail), map[string]any{"case": id})
		return true
	}
	c.mu.Lock()
	defer c.mu.Unlock()
	c.evals += o.Evals
	for k, v := range o.Counters {
		c.counters[k] += v
	}
	for _, h := range o.Distinct {
		c.distinct[h] = struct{}{}
	}
	for _, v := range o.Violations {
		c.sigSeen[v.Sig]++
		if c.sigSeen[v.Sig] <= 3 && len(c.violations) < 200 {
			c.violations = append(c.violations, v)
		}
	}
	return true
}

// Guard runs f, converting a panic into a violation whose signature names the innermost
// repository function on the panicking stack. It reports whether f returned normally.
func (c *Ctx) Guard(site string, input func() any, f func()) (ok bool) {
	defer func() {
		if r := recover(); r != nil {
			ok = false
			fn := innermostRepoFrame()
			c.Count("panics", 1)
			c.Violation("panic:"+site+":"+fn, fmt.Sprintf("panic in %s (%s): %v", site, fn, r), input())
		}
	}()
	f()
	return true
}

// Catch runs f and returns the recovered panic value and innermost repo frame, if any.
func Catch(f func()) (panicked bool, val any, frame string) {
	defer func() {
		if r := recover(); r != nil {
			panicked, val, frame = true, r, innermostRepoFrame()
		}
	}()
	f()
	return
}

func innermostRepoFrame() string {
	pcs := make([]uintptr, 64)
	n := runtime.Callers(3, pcs)
	frames := runtime.CallersFrames(pcs[:n])
	for {
		fr, more := frames.Next()
		if strings.HasPrefix(fr.Function, "github.com/formancehq/numscript") &&
			!strings.Contains(fr.Function, "verifharness") {
			f := strings.TrimPrefix(fr.Function, "github.com/formancehq/numscript/")
			f = strings.TrimPrefix(f, "internal/")
			return f
		}
		if !more {
			break
		}
	}
	return "?"
}

var registry = map[string]*Prop{}

// Register adds properties to the engine.
func Register(ps ...*Prop) {
	for _, p := range ps {
		registry[p.ID] = p
	}
}

func newCtx(p *Prop, tier string, seed uint64) *Ctx {
	return &Ctx{
		Prop: p.ID, Tier: tier, Seed: seed, Quick: tier != "thorough",
		nshards:  1,
		distinct: map[uint64]struct{}{}, counters: map[string]int64{}, maxes: map[string]int64{}, sigSeen: map[string]int{},
	}
}

func verifDir() string {
	if d := os.Getenv("VERIF_DIR"); d != "" {
		return d
	}
	return "/verif"
}

// Main is the entry point of every engine binary.
//
//	engine <prop> <quick|thorough>                       driver
//	engine --worker <prop> <tier> <seed> <shard> <n> <out> <progress>
//	engine --only <prop> <tier> <seed> <case> <out>      single case (confirmation / replay)
func Main() {
	args := os.Args[1:]
	if len(args) >= 1 && args[0] == "--worker" {
		workerMain(args[1:])
		return
	}
	if len(args) >= 1 && args[0] == "--only" {
		onlyMain(args[1:])
		return
	}
	if len(args) >= 2 && args[0] == "--replay" {
		os.Exit(replayMain(args[1]))
	}
	if len(args) < 2 {
		fmt.Fprintln(os.Stderr, "usage: engine <prop> <quick|thorough> | --replay <file>")
		os.Exit(2)
	}
	os.Exit(driverMain(args[0], args[1]))
}

func seedFromEnv() uint64 {
	s := os.Getenv("VERIF_SEED")
	if s == "" {
		return 1
	}
	v, err := strconv.ParseInt(s, 10, 64)
	if err != nil {
		u, err2 := strconv.ParseUint(s, 10, 64)
		if err2 != nil {
			return rng.HashString(s)
		}
		return u
	}
	return uint64(v)
}

func workerMain(a []string) {
	p := registry[a[0]]
	if p == nil {
		fmt.Fprintln(os.Stderr, "unknown property", a[0])
		os.Exit(2)
	}
	seed, _ := strconv.ParseUint(a[2], 10, 64)
	shard, _ := strconv.Atoi(a[3])
	n, _ := strconv.Atoi(a[4])
	c := newCtx(p, a[1], seed)
	c.shard, c.nshards = shard, n
	pf, err := os.Create(a[6])
	if err == nil {
		c.progress = pf
	}
	startWatchdog(c, p, a[5])
	p.Run(c)
	writeOut(c, a[5], true)
}

func onlyMain(a []string) {
	p := registry[a[0]]
	if p == nil {
		fmt.Fprintln(os.Stderr, "unknown property", a[0])
		os.Exit(2)
	}
	seed, _ := strconv.ParseUint(a[2], 10, 64)
	c := newCtx(p, a[1], seed)
	c.only = a[3]
	startWatchdog(c, p, a[4])
	p.Run(c)
	writeOut(c, a[4], true)
}

// cpuNanos is the processor time (user + system) this process has used so far.
func cpuNanos() int64 {
	var ru syscall.Rusage
	if syscall.Getrusage(syscall.RUSAGE_SELF, &ru) != nil {
		return 0
	}
	return ru.Utime.Nano() + ru.Stime.Nano()
}

func startWatchdog(c *Ctx, p *Prop, out string) {
	limit := int64(60)
	if p.CaseLimit > 0 {
		limit = int64(p.CaseLimit)
	}
	if v, err := strconv.Atoi(os.Getenv("VERIF_CASE_LIMIT")); err == nil && v > 0 {
		limit = int64(v)
	}
	go func() {
		for {
			time.Sleep(500 * time.Millisecond)
			st := c.caseStart.Load()
			if st == 0 {
				continue
			}
			// a case is over its budget when it has been running for more than the limit AND has itself
			// consumed more than the limit of processor time (so that a loaded machine, which only
			// stretches wall-clock time, does not trip the watchdog); a case that makes no progress
			// without using the processor is caught by a far longer wall-clock bound
			wall := time.Now().UnixNano() - st
			cpu := cpuNanos() - c.caseStartCPU.Load()
			if (wall > limit*int64(time.Second) && cpu > limit*int64(time.Second)) || wall > 20*limit*int64(time.Second) {
				fmt.Fprintf(os.Stderr, "WATCHDOG: case %q exceeded %ds\n", c.Case(), limit)
				buf := make([]byte, 1<<16)
				n := runtime.Stack(buf, true)
				os.Stderr.Write(buf[:n])
				os.Exit(3)
			}
		}
	}()
}

func writeOut(c *Ctx, path string, done bool) {
	c.mu.Lock()
	defer c.mu.Unlock()
	o := workerOut{Evals: c.evals, Maxes: c.maxes, Counters: c.counters, Samples: c.samples, Violations: c.violations, Done: done}
	o.Distinct = make([]uint64, 0, len(c.distinct))
	for h := range c.distinct {
		o.Distinct = append(o.Distinct, h)
	}
	var buf bytes.Buffer
	if err := gob.NewEncoder(&buf).Encode(o); err != nil {
		fmt.Fprintln(os.Stderr, "encode:", err)
		os.Exit(2)
	}
	if err := os.WriteFile(path, buf.Bytes(), 0o644); err != nil {
		fmt.Fprintln(os.Stderr, "write:", err)
		os.Exit(2)
	}
}

func readOut(path string) (*workerOut, error) {
	b, err := os.ReadFile(path)
	if err != nil {
		return nil, err
	}
	var o workerOut
	if err := gob.NewDecoder(bytes.NewReader(b)).Decode(&o); err != nil {
		return nil, err
	}
	return &o, nil
}

type merged struct {
	evals        int64
	distinct     map[uint64]struct{}
	counters     map[string]int64
	samples      []json.RawMessage
	violations   []Violation
	inconclusive []string
	// statement coverage of the repository's own functions reached by this run (only when the
	// engine was built with -cover and GOCOVERDIR is set)
	anchorCoverage map[string]any
}

func (m *merged) add(o *workerOut) {
	m.evals += o.Evals
	for _, h := range o.Distinct {
		m.distinct[h] = struct{}{}
	}
	for k, v := range o.Counters {
		m.counters[k] += v
	}
	for k, v := range o.Maxes {
		if v > m.counters["max_"+k] {
			m.counters["max_"+k] = v
		}
	}
	for _, s := range o.Samples {
		if len(m.samples) < 5 {
			m.samples = append(m.samples, json.RawMessage(s))
		}
	}
	for _, v := range o.Violations {
		var in any
		json.Unmarshal([]byte(v.Input), &in)
		m.violations = append(m.violations, Violation{Prop: v.Prop, Case: v.Case, Sig: v.Sig, What: v.What, Input: in})
	}
}

func scratchDir() (string, func()) {
	if d := os.Getenv("VERIF_SCRATCH"); d != "" {
		sub, err := os.MkdirTemp(d, "run")
		if err == nil {
			return sub, func() { os.RemoveAll(sub) }
		}
	}
	d, err := os.MkdirTemp("", "verifrun")
	if err != nil {
		panic(err)
	}
	return d, func() { os.RemoveAll(d) }
}

func tailFile(path string, n int) string {
	b, err := os.ReadFile(path)
	if err != nil {
		return ""
	}
	if len(b) > n {
		b = b[:n]
	}
	return string(b)
}

func driverMain(propID, tier string) int {
	p := registry[propID]
	if p == nil {
		fmt.Fprintln(os.Stderr, "unknown property", propID)
		return 2
	}
	if tier != "quick" && tier != "thorough" {
		fmt.Fprintln(os.Stderr, "tier must be quick or thorough")
		return 2
	}
	seed := seedFromEnv()
	start := time.Now()
	exe, _ := os.Executable()
	dir, cleanup := scratchDir()
	defer cleanup()

	nw := runtime.NumCPU()
	if v, err := strconv.Atoi(os.Getenv("VERIF_WORKERS")); err == nil && v > 0 {
		nw = v
	}
	if p.MaxWorkers > 0 && nw > p.MaxWorkers {
		nw = p.MaxWorkers
	}

	m := &merged{distinct: map[uint64]struct{}{}, counters: map[string]int64{}}
	type wres struct {
		shard int
		err   error
	}
	results := make(chan wres, nw)
	for s := 0; s < nw; s++ {
		go func(s int) {
			out := filepath.Join(dir, fmt.Sprintf("out.%d", s))
			prog := filepath.Join(dir, fmt.Sprintf("progress.%d", s))
			logf, _ := os.Create(filepath.Join(dir, fmt.Sprintf("log.%d", s)))
			cmd := exec.Command(exe, "--worker", propID, tier, strconv.FormatUint(seed, 10), strconv.Itoa(s), strconv.Itoa(nw), out, prog)
			cmd.Stdout, cmd.Stderr = logf, logf
			cmd.Env = os.Environ()
			err := cmd.Run()
			logf.Close()
			results <- wres{s, err}
		}(s)
	}
	failed := []int{}
	for i := 0; i < nw; i++ {
		r := <-results
		o, rerr := readOut(filepath.Join(dir, fmt.Sprintf("out.%d", r.shard)))
		if r.err != nil || rerr != nil || !o.Done {
			failed = append(failed, r.shard)
			continue
		}
		m.add(o)
	}
	sort.Ints(failed)
	for _, s := range failed {
		pb, _ := os.ReadFile(filepath.Join(dir, fmt.Sprintf("progress.%d", s)))
		caseID := strings.TrimSpace(string(pb))
		logTxt := tailFile(filepath.Join(dir, fmt.Sprintf("log.%d", s)), 4000)
		if caseID == "" {
			m.inconclusive = append(m.inconclusive, fmt.Sprintf("worker %d died before its first case: %s", s, firstLine(logTxt)))
			continue
		}
		// confirm in a fresh child
		out := filepath.Join(dir, fmt.Sprintf("confirm.%d", s))
		clog := filepath.Join(dir, fmt.Sprintf("confirm.log.%d", s))
		lf, _ := os.Create(clog)
		cmd := exec.Command(exe, "--only", propID, tier, strconv.FormatUint(seed, 10), caseID, out)
		cmd.Stdout, cmd.Stderr = lf, lf
		err := cmd.Run()
		lf.Close()
		if err == nil {
			if o, e := readOut(out); e == nil {
				m.add(o)
			}
			m.inconclusive = append(m.inconclusive, fmt.Sprintf("worker %d died at case %q but the case passes alone: %s", s, caseID, firstLine(logTxt)))
			continue
		}
		ctxt := tailFile(clog, 4000)
		hang := strings.Contains(ctxt, "WATCHDOG:")
		if hang && !p.HangIsViolation {
			m.inconclusive = append(m.inconclusive, fmt.Sprintf("case %q exceeded the per-case watchdog (confirmed)", caseID))
			continue
		}
		kind := "fatal"
		if hang {
			kind = "hang"
		}
		m.violations = append(m.violations, Violation{
			Prop: propID, Case: caseID, Sig: kind + ":" + fatalSig(ctxt),
			What:  fmt.Sprintf("worker process died (%s) on this case, confirmed by an isolated re-run: %s", kind, firstLine(ctxt)),
			Input: map[string]any{"case": caseID, "stderr_head": ctxt},
		})
	}

	if prefix := os.Getenv("VERIF_RACE_LOG"); prefix != "" {
		scanRaceLogs(prefix, propID, m)
	}

	for _, k := range p.Require {
		if m.counters[k] == 0 {
			m.inconclusive = append(m.inconclusive, "required event never observed: "+k)
		}
	}
	if len(m.distinct) < 2 {
		m.inconclusive = append(m.inconclusive, fmt.Sprintf("only %d distinct non-trivial cases observed", len(m.distinct)))
	}

	// Findings triage.
	known := loadKnown()
	exit := 0
	reported := map[string]bool{}
	nViol := 0
	for _, v := range m.violations {
		if kf := known.match(v); kf != nil {
			key := "K|" + kf.Property + "|" + kf.What
			if !reported[key] {
				reported[key] = true
				fmt.Printf("KNOWN-FINDING: property=%s %s\n", v.Prop, kf.What)
			}
			m.counters["known_finding_hits"]++
			continue
		}
		nViol++
		key := v.Prop + "|" + v.Sig
		if reported[key] {
			continue
		}
		reported[key] = true
		path := writeReplay(v, tier, seed)
		fmt.Printf("VIOLATION property=%s replay=%s\n", v.Prop, path)
		fmt.Printf("  case=%s sig=%s\n  %s\n", v.Case, v.Sig, oneLine(v.What, 600))
		exit = 1
	}
	for _, s := range m.inconclusive {
		fmt.Printf("INCONCLUSIVE property=%s %s\n", propID, s)
	}
	if exit == 0 && len(m.inconclusive) > 0 {
		exit = 2
	}

	m.anchorCoverage = collectCoverage(propID)
	writeEvidence(p, tier, seed, m, nViol, time.Since(start).Seconds(), nw)
	keys := make([]string, 0, len(m.counters))
	for k := range m.counters {
		keys = append(keys, k)
	}
	sort.Strings(keys)
	fmt.Printf("%s %s seed=%d: evaluations=%d distinct_nontrivial=%d violations=%d inconclusive=%d wall=%.1fs\n",
		propID, tier, seed, m.evals, len(m.distinct), nViol, len(m.inconclusive), time.Since(start).Seconds())
	for _, k := range keys {
		fmt.Printf("  %-44s %d\n", k, m.counters[k])
	}
	return exit
}

func firstLine(s string) string {
	for _, l := range strings.Split(s, "\n") {
		l = strings.TrimSpace(l)
		if l != "" {
			return oneLine(l, 300)
		}
	}
	return ""
}

func oneLine(s string, n int) string {
	s = strings.ReplaceAll(s, "\n", " ⏎ ")
	if len(s) > n {
		s = s[:n] + "…"
	}
	return s
}

// fatalSig extracts "fatal error: …" / "panic: …" plus the innermost repository frame from a
// Go crash dump.
func fatalSig(dump string) string {
	kind := ""
	frame := ""
	for _, l := range strings.Split(dump, "\n") {
		t := strings.TrimSpace(l)
		if kind == "" && (strings.HasPrefix(t, "fatal error:") || strings.HasPrefix(t, "panic:") || strings.HasPrefix(t, "WATCHDOG:") || strings.HasPrefix(t, "runtime: goroutine stack exceeds")) {
			kind = t
			if strings.HasPrefix(t, "WATCHDOG:") {
				kind = "watchdog"
			}
			if len(kind) > 60 {
				kind = kind[:60]
			}
		}
		if frame == "" && strings.HasPrefix(t, "github.com/formancehq/numscript/") && !strings.Contains(t, "verifharness") {
			f := strings.TrimPrefix(t, "github.com/formancehq/numscript/")
			if i := strings.LastIndex(f, "("); i > 0 {
				f = f[:i]
			}
			frame = strings.TrimPrefix(f, "internal/")
		}
	}
	return kind + ":" + frame
}

func writeReplay(v Violation, tier string, seed uint64) string {
	dir := filepath.Join(verifDir(), "replays", v.Prop)
	os.MkdirAll(dir, 0o755)
	name := fmt.Sprintf("%016x.json", rng.HashString(v.Prop+"|"+v.Sig+"|"+v.Case+"|"+strconv.FormatUint(seed, 10)))
	path := filepath.Join(dir, name)
	b, _ := json.MarshalIndent(map[string]any{
		"property": v.Prop, "tier": tier, "seed": seed, "case": v.Case, "sig": v.Sig, "what": v.What, "input": v.Input,
	}, "", " ")
	os.WriteFile(path, b, 0o644)
	return path
}

// ReplayInfo is what ./check needs to pick the engine for a replay file.
type ReplayInfo struct {
	Property string `json:"property"`
	Tier     string `json:"tier"`
	Seed     uint64 `json:"seed"`
	Case     string `json:"case"`
	Sig      string `json:"sig"`
}

func replayMain(path string) int {
	b, err := os.ReadFile(path)
	if err != nil {
		fmt.Fprintln(os.Stderr, err)
		return 2
	}
	var ri ReplayInfo
	if err := json.Unmarshal(b, &ri); err != nil {
		fmt.Fprintln(os.Stderr, err)
		return 2
	}
	// The engine that produced the violation may have recorded it under another property id
	// (ViolationOf); the case id is prefixed by the running property in that situation.
	runProp := ri.Property
	if i := strings.Index(ri.Case, "::"); i > 0 {
		runProp = ri.Case[:i]
	}
	p := registry[runProp]
	if p == nil {
		fmt.Fprintln(os.Stderr, "this engine does not serve", runProp)
		return 2
	}
	c := newCtx(p, ri.Tier, ri.Seed)
	c.only = ri.Case
	startWatchdog(c, p, "")
	p.Run(c)
	if c.evals == 0 && len(c.violations) == 0 {
		fmt.Printf("INCONCLUSIVE property=%s case %q not found (generator changed?)\n", ri.Property, ri.Case)
		return 2
	}
	hit := false
	for _, v := range c.violations {
		fmt.Printf("VIOLATION property=%s replay=%s\n  sig=%s\n  %s\n", v.Prop, path, v.Sig, oneLine(v.What, 2000))
		hit = true
	}
	if hit {
		return 1
	}
	fmt.Printf("replay of %s: no violation observed (evaluations=%d)\n", path, c.evals)
	return 0
}

func writeEvidence(p *Prop, tier string, seed uint64, m *merged, nViol int, wall float64, workers int) {
	level := p.Level
	if level == "" {
		level = "exploration"
	}
	cov := map[string]any{
		"evaluations":         m.evals,
		"distinct_nontrivial": len(m.distinct),
		"rule":                p.Rule,
		"samples":             m.samples,
		"events":              m.counters,
		"worker_processes":    workers,
		"inconclusive":        append([]string{}, m.inconclusive...),
	}
	if m.samples == nil {
		cov["samples"] = []any{}
	}
	if m.anchorCoverage != nil {
		cov["anchor_coverage"] = m.anchorCoverage
	}
	if m.counters["exhaustive_spaces_completed"] > 0 {
		cov["exhaustive_subspaces"] = m.counters["exhaustive_spaces_completed"]
	}
	ev := map[string]any{
		"property_id": p.ID,
		"tier":        tier,
		"seed":        int64(seed & 0x7fffffffffffffff),
		"level":       level,
		"coverage":    cov,
		"assumptions": p.Assumptions,
		"wall_s":      wall,
		"violations":  nViol,
	}
	if p.Assumptions == nil {
		ev["assumptions"] = []string{}
	}
	b, _ := json.MarshalIndent(ev, "", " ")
	dir := filepath.Join(verifDir(), "evidence")
	os.MkdirAll(dir, 0o755)
	os.WriteFile(filepath.Join(dir, p.ID+".json"), append(b, '\n'), 0o644)
}

// ---- known findings ----

type knownEntry struct {
	Status   string `json:"status"` // known | fixed
	Property string `json:"property"`
	Commit   string `json:"commit,omitempty"`
	What     string `json:"what"`
	// Match (for status=known): a violation matches when its property equals Property and its
	// signature equals MatchSig, and — when MatchInput is set — the JSON of its input contains it.
	MatchSig   string `json:"match_sig,omitempty"`
	MatchInput string `json:"match_input,omitempty"`
}

type knownFile struct {
	Findings []knownEntry `json:"findings"`
}

func loadKnown() *knownFile {
	var k knownFile
	b, err := os.ReadFile(filepath.Join(verifDir(), "known_findings.json"))
	if err != nil {
		return &k
	}
	json.Unmarshal(b, &k)
	return &k
}

func (k *knownFile) match(v Violation) *knownEntry {
	for i := range k.Findings {
		e := &k.Findings[i]
		if e.Status != "known" || e.Property != v.Prop || e.MatchSig == "" || e.MatchSig != v.Sig {
			continue
		}
		if e.MatchInput != "" {
			b, _ := json.Marshal(v.Input)
			if !strings.Contains(string(b), e.MatchInput) {
				continue
			}
		}
		return e
	}
	return nil
}

// scanRaceLogs turns the race detector's reports (GORACE log_path=prefix) into violations,
// de-duplicated by the innermost repository frames of the two conflicting accesses.
func scanRaceLogs(prefix, propID string, m *merged) {
	files, _ := filepath.Glob(prefix + ".*")
	sort.Strings(files)
	seen := map[string]bool{}
	for _, f := range files {
		b, err := os.ReadFile(f)
		if err != nil {
			continue
		}
		blocks := strings.Split(string(b), "==================")
		for _, blk := range blocks {
			if !strings.Contains(blk, "WARNING: DATA RACE") {
				continue
			}
			m.counters["race_report_blocks"]++
			var frames []string
			inStack := false
			got := false
			for _, l := range strings.Split(blk, "\n") {
				t := strings.TrimSpace(l)
				if strings.HasPrefix(t, "Write at") || strings.HasPrefix(t, "Read at") || strings.HasPrefix(t, "Previous write at") || strings.HasPrefix(t, "Previous read at") {
					inStack, got = true, false
					continue
				}
				if t == "" {
					inStack = false
					continue
				}
				if inStack && !got && strings.HasPrefix(t, "github.com/formancehq/numscript/") && !strings.Contains(t, "verifharness") {
					fn := strings.TrimPrefix(t, "github.com/formancehq/numscript/")
					if i := strings.LastIndex(fn, "("); i > 0 {
						fn = fn[:i]
					}
					frames = append(frames, strings.TrimPrefix(fn, "internal/"))
					got = true
				}
			}
			sort.Strings(frames)
			sig := "race:" + strings.Join(frames, "|")
			if seen[sig] {
				continue
			}
			seen[sig] = true
			txt := blk
			if len(txt) > 6000 {
				txt = txt[:6000]
			}
			m.violations = append(m.violations, Violation{Prop: propID, Case: "race-detector", Sig: sig,
				What:  "the Go race detector reported a data race between " + strings.Join(frames, " and "),
				Input: map[string]any{"report": txt}})
		}
	}
	m.counters["race_log_files_scanned"] += int64(len(files))
}

// collectCoverage summarises `go tool covdata func` over GOCOVERDIR for the repository's
// hand-written packages: per file, the functions reached and the statement coverage of each.
func collectCoverage(propID string) map[string]any {
	dir := os.Getenv("GOCOVERDIR")
	if dir == "" {
		return nil
	}
	// restrict to the files the property is anchored in
	anchors := map[string]bool{}
	if b, err := os.ReadFile(filepath.Join(os.Getenv("VERIF_HOME"), "properties.jsonl")); err == nil {
		for _, l := range strings.Split(string(b), "\n") {
			var pr struct {
				ID      string `json:"id"`
				Anchors struct {
					Files []string `json:"files"`
				} `json:"anchors"`
			}
			if json.Unmarshal([]byte(l), &pr) == nil && pr.ID == propID {
				for _, f := range pr.Anchors.Files {
					anchors[f] = true
				}
			}
		}
	}
	out, err := exec.Command("go", "tool", "covdata", "func", "-i="+dir).Output()
	if err != nil {
		return map[string]any{"error": err.Error()}
	}
	type fileCov struct {
		Functions   int      `json:"functions"`
		Reached     int      `json:"functions_reached"`
		NotReached  []string `json:"functions_not_reached,omitempty"`
		MeanPercent float64  `json:"mean_statement_coverage_percent"`
		sum         float64
	}
	files := map[string]*fileCov{}
	for _, l := range strings.Split(string(out), "\n") {
		f := strings.Fields(l)
		if len(f) != 3 || !strings.HasPrefix(f[0], "github.com/formancehq/numscript/") {
			continue
		}
		if strings.Contains(f[0], "verifharness") || strings.Contains(f[0], "/parser/antlr/") || strings.Contains(f[0], "/lsp/bindings.go") {
			continue
		}
		path := strings.TrimPrefix(f[0], "github.com/formancehq/numscript/")
		if i := strings.Index(path, ":"); i > 0 {
			path = path[:i]
		}
		if len(anchors) > 0 && !anchors[path] {
			continue
		}
		pct, err := strconv.ParseFloat(strings.TrimSuffix(f[2], "%"), 64)
		if err != nil {
			continue
		}
		fc := files[path]
		if fc == nil {
			fc = &fileCov{}
			files[path] = fc
		}
		fc.Functions++
		fc.sum += pct
		if pct > 0 {
			fc.Reached++
		} else {
			fc.NotReached = append(fc.NotReached, f[1])
		}
	}
	res := map[string]any{}
	for k, v := range files {
		v.MeanPercent = float64(int(v.sum/float64(v.Functions)*10)) / 10
		res[k] = v
	}
	return res
}
