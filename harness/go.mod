module github.com/formancehq/numscript/verifharness

go 1.22.1

require (
	github.com/antlr4-go/antlr/v4 v4.13.1
	github.com/formancehq/numscript v0.0.0
	github.com/sourcegraph/jsonrpc2 v0.2.0
)

require golang.org/x/exp v0.0.0-20240707233637-46b078467d37 // indirect

replace github.com/formancehq/numscript => /repo
