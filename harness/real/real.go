// Package real wraps the repository's public API for the monitors: guarded parse / run, the
// harness-owned Store implementations (which record every call) and the classification of the
// errors the interpreter returns.
package real

import (
	"context"
	"errors"
	"fmt"
	"io"
	"math/big"
	"sort"
	"strings"

	"github.com/formancehq/numscript"
	"github.com/formancehq/numscript/verifharness/fw"
	"github.com/formancehq/numscript/verifharness/gen"
	"github.com/formancehq/numscript/verifharness/model"
)

// StoreCall is one recorded call into the store.
type StoreCall struct {
	Seq   int
	Kind  string // balances | metadata
	Query map[string][]string
	// Returned is a rendering of what the store answered (nil on injected failure).
	Returned map[string]map[string]string
	Failed   bool
}

type StoreKind int

const (
	Exact StoreKind = iota
	Sparse
	Superset
	Static
	NumStoreKinds
)

func (k StoreKind) String() string {
	return [...]string{"exact", "sparse", "superset", "static"}[k]
}

// Store is the harness-owned store. It never shares memory with its caller: every answer is
// made of fresh maps and fresh integers, and the content it was built from is deep-copied.
type Store struct {
	Kind     StoreKind
	Balances map[string]map[string]*big.Int
	Meta     map[string]map[string]string
	Calls    []StoreCall
	// FailAt > 0: the FailAt-th call (1-based, balances and metadata counted together) fails
	// with FailMsg.
	FailAt int
	// FailShape selects the shape of the injected error value (see failErr)
	FailShape int
	FailMsg   string
	// OnBalances, if set, is called at the start of GetBalances (used to overlap concurrent
	// runs).
	OnBalances func()
	// Keep: remember every returned map together with a rendering taken at return time, so
	// that ReturnedUnchanged can tell whether the caller wrote into them.
	Keep        bool
	keptBal     []numscript.Balances
	keptBalTxt  []string
	keptMeta    []numscript.AccountsMetadata
	keptMetaTxt []string
	static      *numscript.StaticStore
}

func CopyBalances(b map[string]map[string]*big.Int) map[string]map[string]*big.Int {
	out := make(map[string]map[string]*big.Int, len(b))
	for a, m := range b {
		mm := make(map[string]*big.Int, len(m))
		for k, v := range m {
			if v == nil {
				mm[k] = nil
			} else {
				mm[k] = new(big.Int).Set(v)
			}
		}
		out[a] = mm
	}
	return out
}

func CopyMeta(b map[string]map[string]string) map[string]map[string]string {
	out := make(map[string]map[string]string, len(b))
	for a, m := range b {
		mm := make(map[string]string, len(m))
		for k, v := range m {
			mm[k] = v
		}
		out[a] = mm
	}
	return out
}

func NewStore(kind StoreKind, bal map[string]map[string]*big.Int, meta map[string]map[string]string) *Store {
	s := &Store{Kind: kind, Balances: CopyBalances(bal), Meta: CopyMeta(meta)}
	if kind == Static {
		s.static = &numscript.StaticStore{Balances: toBalances(CopyBalances(bal)), Meta: toMeta(CopyMeta(meta))}
	}
	return s
}

func toBalances(b map[string]map[string]*big.Int) numscript.Balances {
	out := numscript.Balances{}
	for a, m := range b {
		out[a] = numscript.AccountBalance(m)
	}
	return out
}

func toMeta(b map[string]map[string]string) numscript.AccountsMetadata {
	out := numscript.AccountsMetadata{}
	for a, m := range b {
		out[a] = numscript.AccountMetadata(m)
	}
	return out
}

func renderBalances(b numscript.Balances) map[string]map[string]string {
	out := map[string]map[string]string{}
	for a, m := range b {
		out[a] = map[string]string{}
		for k, v := range m {
			if v == nil {
				out[a][k] = "nil"
			} else {
				out[a][k] = v.String()
			}
		}
	}
	return out
}

func copyQuery(q map[string][]string) map[string][]string {
	out := map[string][]string{}
	for k, v := range q {
		out[k] = append([]string(nil), v...)
	}
	return out
}

// storeFailure is an error type of the store's own that wraps a cause.
type storeFailure struct {
	msg   string
	cause error
}

func (e *storeFailure) Error() string { return e.msg }
func (e *storeFailure) Unwrap() error { return e.cause }

// failErr is the injected failure; its shape (plain, wrapping another error with %w, a type of
// the store's own with Unwrap, joined errors) varies with FailShape. Its message always contains
// FailMsg.
func (s *Store) failErr() error {
	switch s.FailShape % 4 {
	case 1:
		return fmt.Errorf("%s: %w", s.FailMsg, context.DeadlineExceeded)
	case 2:
		return &storeFailure{msg: s.FailMsg, cause: fmt.Errorf("connection reset: %w", io.ErrUnexpectedEOF)}
	case 3:
		return errors.Join(errors.New(s.FailMsg), io.EOF)
	}
	return errors.New(s.FailMsg)
}

func (s *Store) GetBalances(ctx context.Context, q numscript.BalanceQuery) (numscript.Balances, error) {
	if s.OnBalances != nil {
		s.OnBalances()
	}
	call := StoreCall{Seq: len(s.Calls) + 1, Kind: "balances", Query: copyQuery(q)}
	if s.FailAt > 0 && call.Seq == s.FailAt {
		call.Failed = true
		s.Calls = append(s.Calls, call)
		return nil, s.failErr()
	}
	var out numscript.Balances
	switch s.Kind {
	case Static:
		out, _ = s.static.GetBalances(ctx, q)
		call.Returned = renderBalances(out)
		s.Calls = append(s.Calls, call)
		return out, nil
	case Superset:
		out = toBalances(CopyBalances(s.Balances))
		// and still answer what was asked for
		for a, assets := range q {
			if out[a] == nil {
				out[a] = numscript.AccountBalance{}
			}
			for _, as := range assets {
				if _, ok := out[a][as]; !ok {
					out[a][as] = new(big.Int)
				}
			}
		}
	case Exact:
		out = numscript.Balances{}
		for a, assets := range q {
			out[a] = numscript.AccountBalance{}
			for _, as := range assets {
				v := new(big.Int)
				if b, ok := s.Balances[a][as]; ok && b != nil {
					v.Set(b)
				}
				out[a][as] = v
			}
		}
	case Sparse:
		out = numscript.Balances{}
		for a, assets := range q {
			for _, as := range assets {
				if b, ok := s.Balances[a][as]; ok && b != nil && b.Sign() != 0 {
					if out[a] == nil {
						out[a] = numscript.AccountBalance{}
					}
					out[a][as] = new(big.Int).Set(b)
				}
			}
		}
	}
	call.Returned = renderBalances(out)
	s.Calls = append(s.Calls, call)
	if s.Keep {
		s.keptBal = append(s.keptBal, out)
		s.keptBalTxt = append(s.keptBalTxt, fmt.Sprint(renderBalances(out)))
	}
	return out, nil
}

// ReturnedUnchanged compares every map the store handed out with its rendering at return time.
func (s *Store) ReturnedUnchanged() string {
	for i, b := range s.keptBal {
		if now := fmt.Sprint(renderBalances(b)); now != s.keptBalTxt[i] {
			return fmt.Sprintf("balances returned by store call were %s and are now %s", s.keptBalTxt[i], now)
		}
	}
	for i, b := range s.keptMeta {
		if now := fmt.Sprint(b); now != s.keptMetaTxt[i] {
			return fmt.Sprintf("metadata returned by store call was %s and is now %s", s.keptMetaTxt[i], now)
		}
	}
	return ""
}

func (s *Store) GetAccountsMetadata(ctx context.Context, q numscript.MetadataQuery) (numscript.AccountsMetadata, error) {
	call := StoreCall{Seq: len(s.Calls) + 1, Kind: "metadata", Query: copyQuery(q)}
	if s.FailAt > 0 && call.Seq == s.FailAt {
		call.Failed = true
		s.Calls = append(s.Calls, call)
		return nil, s.failErr()
	}
	var out numscript.AccountsMetadata
	switch s.Kind {
	case Static:
		out, _ = s.static.GetAccountsMetadata(ctx, q)
	case Superset:
		out = toMeta(CopyMeta(s.Meta))
	default:
		out = numscript.AccountsMetadata{}
		for a, keys := range q {
			for _, k := range keys {
				if v, ok := s.Meta[a][k]; ok {
					if out[a] == nil {
						out[a] = numscript.AccountMetadata{}
					}
					out[a][k] = v
				}
			}
		}
	}
	ret := map[string]map[string]string{}
	for a, m := range out {
		ret[a] = map[string]string{}
		for k, v := range m {
			ret[a][k] = v
		}
	}
	call.Returned = ret
	s.Calls = append(s.Calls, call)
	if s.Keep {
		s.keptMeta = append(s.keptMeta, out)
		s.keptMetaTxt = append(s.keptMetaTxt, fmt.Sprint(out))
	}
	return out, nil
}

// StaticContent exposes the maps held by the bundled StaticStore (purity monitor).
func (s *Store) StaticContent() (numscript.Balances, numscript.AccountsMetadata) {
	if s.static == nil {
		return nil, nil
	}
	return s.static.Balances, s.static.Meta
}

// ---- outcomes ----

type Posting struct {
	Src, Dst, Asset string
	Amt             *big.Int
}

func (p Posting) String() string { return fmt.Sprintf("%s->%s %s %s", p.Src, p.Dst, p.Asset, p.Amt) }

// Outcome of one guarded execution.
type Outcome struct {
	Panicked bool
	PanicVal string
	Frame    string
	Err      error
	ErrText  string
	Class    string // "" on success
	Postings []Posting
	TxMeta   map[string]numscript.Value
	AcctMeta map[string]map[string]string
	// NonZeroOnError: the returned ExecutionResult was not the zero value although err != nil.
	NonZeroOnError bool
	Calls          []StoreCall
}

func (o *Outcome) OK() bool { return !o.Panicked && o.Err == nil }

// Summary is a compact, comparable rendering (class or postings + metadata).
func (o *Outcome) Summary() string {
	if o.Panicked {
		return "panic: " + o.PanicVal
	}
	if o.Err != nil {
		return "error[" + o.Class + "]"
	}
	var b strings.Builder
	for _, p := range o.Postings {
		b.WriteString(p.String())
		b.WriteString("; ")
	}
	b.WriteString("| tx:")
	keys := make([]string, 0, len(o.TxMeta))
	for k := range o.TxMeta {
		keys = append(keys, k)
	}
	sort.Strings(keys)
	for _, k := range keys {
		fmt.Fprintf(&b, "%s=%T(%s),", k, o.TxMeta[k], o.TxMeta[k].String())
	}
	b.WriteString("| acct:")
	as := make([]string, 0, len(o.AcctMeta))
	for a := range o.AcctMeta {
		as = append(as, a)
	}
	sort.Strings(as)
	for _, a := range as {
		ks := make([]string, 0)
		for k := range o.AcctMeta[a] {
			ks = append(ks, k)
		}
		sort.Strings(ks)
		for _, k := range ks {
			fmt.Fprintf(&b, "%s.%s=%s,", a, k, o.AcctMeta[a][k])
		}
	}
	return b.String()
}

// ParseOutcome of a guarded parse.
type ParseOutcome struct {
	Panicked bool
	PanicVal string
	Frame    string
	Errors   []numscript.ParserError
	Result   numscript.ParseResult
}

func Parse(text string) ParseOutcome {
	var po ParseOutcome
	p, v, fr := fw.Catch(func() {
		po.Result = numscript.Parse(text)
		po.Errors = po.Result.GetParsingErrors()
	})
	if p {
		po.Panicked, po.PanicVal, po.Frame = true, fmt.Sprint(v), fr
	}
	return po
}

func FlagsOf(c *gen.Case) map[string]struct{} {
	if len(c.Flags) == 0 {
		return nil
	}
	m := map[string]struct{}{}
	for k, on := range c.Flags {
		if on {
			m[k] = struct{}{}
		}
	}
	return m
}

func copyVars(v map[string]string) numscript.VariablesMap {
	out := numscript.VariablesMap{}
	for k, x := range v {
		out[k] = x
	}
	return out
}

// Run executes a parsed script against a store, guarded.
func Run(pr numscript.ParseResult, vars map[string]string, flags map[string]struct{}, st numscript.Store) *Outcome {
	return RunCtx(context.Background(), pr, vars, flags, st)
}

// RunCtx is Run under a context of the caller's (e.g. one that is already cancelled: the
// harness stores do not look at it).
func RunCtx(ctx context.Context, pr numscript.ParseResult, vars map[string]string, flags map[string]struct{}, st numscript.Store) *Outcome {
	o := &Outcome{}
	var res numscript.ExecutionResult
	var err numscript.InterpreterError
	p, v, fr := fw.Catch(func() {
		res, err = pr.RunWithFeatureFlags(ctx, copyVars(vars), st, flags)
	})
	if s, ok := st.(*Store); ok {
		o.Calls = s.Calls
	}
	if p {
		o.Panicked, o.PanicVal, o.Frame = true, fmt.Sprint(v), fr
		return o
	}
	fill(o, res, err)
	return o
}

func fill(o *Outcome, res numscript.ExecutionResult, err numscript.InterpreterError) {
	if err != nil {
		// an error value must be usable: rendering it is part of the observation
		if p, v, fr := fw.Catch(func() { o.ErrText = err.Error(); _ = err.GetRange() }); p {
			o.Panicked, o.PanicVal, o.Frame = true, fmt.Sprintf("rendering the returned error (%T) panics: %v", err, v), fr
			return
		}
		o.Err = err
		o.Class = Classify(err)
		if res.Postings != nil || res.Metadata != nil || res.AccountsMetadata != nil {
			o.NonZeroOnError = true
		}
		return
	}
	for _, p := range res.Postings {
		amt := p.Amount
		if amt == nil {
			amt = new(big.Int)
		}
		o.Postings = append(o.Postings, Posting{p.Source, p.Destination, p.Asset, normalised(amt)})
	}
	o.TxMeta = res.Metadata
	o.AcctMeta = map[string]map[string]string{}
	for a, m := range res.AccountsMetadata {
		o.AcctMeta[a] = map[string]string{}
		for k, v := range m {
			o.AcctMeta[a][k] = v
		}
	}
}

// normalised copies a number read from a result. A big.Int whose digit slice carries leading zero
// words (which in-place arithmetic on a shared digit array can produce, and on which Sign, Cmp
// and String disagree or panic) is read by its digits: such a "positive zero" is zero.
func normalised(x *big.Int) *big.Int {
	bits := append([]big.Word(nil), x.Bits()...)
	for len(bits) > 0 && bits[len(bits)-1] == 0 {
		bits = bits[:len(bits)-1]
	}
	z := new(big.Int).SetBits(bits)
	if x.Sign() < 0 && len(bits) > 0 {
		z.Neg(z)
	}
	return z
}

// Summarize renders a raw (result, error) pair like Outcome.Summary.
func Summarize(res numscript.ExecutionResult, err numscript.InterpreterError) string {
	o := &Outcome{}
	fill(o, res, err)
	return o.Summary()
}

// RunCase executes a case with a fresh store of the given kind.
func RunCase(pr numscript.ParseResult, c *gen.Case, kind StoreKind) (*Outcome, *Store) {
	st := NewStore(kind, c.Balances, c.Meta)
	return Run(pr, c.Vars, FlagsOf(c), st), st
}

var classByType = map[string]string{
	"MissingFundsErr":           model.EMissingFunds,
	"NegativeAmountErr":         model.ENegativeAmount,
	"InvalidUnboundedInSendAll": model.EUnboundedAll,
	"InvalidAllotmentInSendAll": model.EAllotmentAll,
	"InvalidAllotmentSum":       model.EAllotmentSum,
	"MismatchedCurrencyError":   model.EMismatchedAsset,
	"TypeError":                 model.EType,
	"UnboundVariableErr":        model.EUnboundVar,
	"UnboundFunctionErr":        model.EUnboundFn,
	"BadArityErr":               model.EArity,
	"MissingVariableErr":        model.EMissingVar,
	"MetadataNotFound":          model.EMetaNotFound,
	"InvalidTypeErr":            model.EInvalidType,
	"BadPortionParsingErr":      model.EBadPortion,
	"InvalidNumberLiteral":      model.EBadNumber,
	"InvalidMonetaryLiteral":    model.EBadMonetary,
	"NegativeBalanceError":      model.ENegativeBalance,
	"ExperimentalFeature":       model.EExperimental,
	"InvalidAccountName":        model.EBadAccount,
	"QueryBalanceError":         model.EStoreBalances,
	"QueryMetadataError":        model.EStoreMeta,
}

// Classify maps the dynamic type of an interpreter error to the shared vocabulary. Unknown
// types are reported as "other:<type>".
func Classify(err error) string {
	t := fmt.Sprintf("%T", err)
	if i := strings.LastIndex(t, "."); i >= 0 {
		t = t[i+1:]
	}
	t = strings.TrimPrefix(t, "*")
	if c, ok := classByType[t]; ok {
		return c
	}
	return "other:" + t
}

// ToInput converts a case to the model's input.
func ToInput(c *gen.Case) *model.Input {
	return &model.Input{Vars: c.Vars, Balances: c.Balances, Meta: c.Meta, Flags: c.Flags}
}
