package gen

import (
	"strings"
	"unicode/utf8"

	"github.com/formancehq/numscript/verifharness/rng"
)

// Pos is a zero-based (line, character) position; characters are code points.
type Pos struct{ Line, Char int }

type Span struct{ Start, End Pos }

// NodeKey identifies a recorded span: a tree node plus a part ("" = whole construct,
// "name"/"type" of a declaration, "caller" of a call).
type NodeKey struct {
	Node any
	Part string
}

type tok struct {
	text string
}

// Printed is a script rendered to text together with the exact span of every construct.
type Printed struct {
	Text  string
	toks  []tok
	first map[NodeKey]int
	last  map[NodeKey]int
	// per token
	TokStart, TokEnd []Pos
	TokOff           []int // byte offset of each token
	TokText          []string
	Lines            []int // number of characters of each line (excluding the \n)
}

// SpanOf returns the recorded span of a node part.
func (p *Printed) SpanOf(n any, part string) (Span, bool) {
	k := NodeKey{n, part}
	f, ok := p.first[k]
	if !ok {
		return Span{}, false
	}
	return Span{p.TokStart[f], p.TokEnd[p.last[k]]}, true
}

// TokRange returns first/last token indices of a node.
func (p *Printed) TokRange(n any, part string) (int, int, bool) {
	k := NodeKey{n, part}
	f, ok := p.first[k]
	return f, p.last[k], ok
}

type printer struct {
	p *Printed
}

func (pr *printer) emit(s string) int {
	pr.p.toks = append(pr.p.toks, tok{s})
	return len(pr.p.toks) - 1
}

func (pr *printer) open(n any, part string) func() {
	k := NodeKey{n, part}
	start := len(pr.p.toks)
	return func() {
		pr.p.first[k] = start
		pr.p.last[k] = len(pr.p.toks) - 1
	}
}

func (pr *printer) expr(e Expr) {
	defer pr.open(e, "")()
	switch e := e.(type) {
	case *Var:
		pr.emit("$" + e.Name)
	case *Asset:
		pr.emit(e.Name)
	case *Account:
		pr.emit("@" + e.Name)
	case *Str:
		pr.emit(`"` + e.S + `"`)
	case *Num:
		pr.emit(e.Text)
	case *Ratio:
		pr.emit(e.Text)
	case *Percent:
		pr.emit(e.Text)
	case *Mon:
		pr.emit("[")
		pr.expr(e.Asset)
		pr.expr(e.Amount)
		pr.emit("]")
	case *Infix:
		pr.expr(e.L)
		pr.emit(string(e.Op))
		pr.expr(e.R)
	default:
		panic("gen: unknown expr")
	}
}

func (pr *printer) allot(a Allot) {
	switch a := a.(type) {
	case *AllotLit:
		pr.expr(a.Lit)
	case *AllotVar:
		pr.expr(a.V)
	case *AllotRemaining:
		defer pr.open(a, "")()
		pr.emit("remaining")
	}
}

func (pr *printer) source(s Source) {
	defer pr.open(s, "")()
	switch s := s.(type) {
	case *SrcAccount:
		pr.expr(s.E)
	case *SrcOverdraft:
		pr.expr(s.Addr)
		pr.emit("allowing")
		if s.Bounded == nil {
			pr.emit("unbounded")
			pr.emit("overdraft")
		} else {
			pr.emit("overdraft")
			pr.emit("up")
			pr.emit("to")
			pr.expr(s.Bounded)
		}
	case *SrcInorder:
		pr.emit("{")
		for _, x := range s.Srcs {
			pr.source(x)
		}
		pr.emit("}")
	case *SrcAllot:
		pr.emit("{")
		for _, it := range s.Items {
			done := pr.open(it, "")
			pr.allot(it.A)
			pr.emit("from")
			pr.source(it.From)
			done()
		}
		pr.emit("}")
	case *SrcCapped:
		pr.emit("max")
		pr.expr(s.Cap)
		pr.emit("from")
		pr.source(s.From)
	default:
		panic("gen: unknown source")
	}
}

func (pr *printer) kod(k *KOD) {
	if k.Kept {
		defer pr.open(k, "")()
		pr.emit("kept")
		return
	}
	pr.emit("to")
	pr.dest(k.To)
}

func (pr *printer) dest(d Dest) {
	defer pr.open(d, "")()
	switch d := d.(type) {
	case *DstAccount:
		pr.expr(d.E)
	case *DstInorder:
		pr.emit("{")
		for _, c := range d.Clauses {
			done := pr.open(c, "")
			pr.emit("max")
			pr.expr(c.Cap)
			pr.kod(c.To)
			done()
		}
		pr.emit("remaining")
		pr.kod(d.Remaining)
		pr.emit("}")
	case *DstAllot:
		pr.emit("{")
		for _, it := range d.Items {
			done := pr.open(it, "")
			pr.allot(it.A)
			pr.kod(it.To)
			done()
		}
		pr.emit("}")
	default:
		panic("gen: unknown destination")
	}
}

func (pr *printer) sent(s *SentValue) {
	defer pr.open(s, "")()
	if s.All {
		pr.emit("[")
		pr.expr(s.E)
		pr.emit("*")
		pr.emit("]")
		return
	}
	pr.expr(s.E)
}

func (pr *printer) call(c *Call) {
	defer pr.open(c, "")()
	done := pr.open(c, "caller")
	pr.emit(c.Name)
	done()
	pr.emit("(")
	for i, a := range c.Args {
		if i > 0 {
			pr.emit(",")
		}
		pr.expr(a)
	}
	pr.emit(")")
}

func (pr *printer) stmt(s Stmt) {
	switch s := s.(type) {
	case *Send:
		defer pr.open(s, "")()
		pr.emit("send")
		pr.sent(s.Sent)
		pr.emit("(")
		pr.emit("source")
		pr.emit("=")
		pr.source(s.Src)
		pr.emit("destination")
		pr.emit("=")
		pr.dest(s.Dst)
		pr.emit(")")
	case *Save:
		defer pr.open(s, "")()
		pr.emit("save")
		pr.sent(s.Sent)
		pr.emit("from")
		pr.expr(s.From)
	case *Call:
		pr.call(s)
	default:
		panic("gen: unknown statement")
	}
}

func (pr *printer) script(sc *Script) {
	if sc.VarsBlock || len(sc.Vars) > 0 {
		pr.emit("vars")
		pr.emit("{")
		for _, v := range sc.Vars {
			done := pr.open(v, "")
			d2 := pr.open(v, "type")
			pr.emit(v.Type)
			d2()
			d3 := pr.open(v, "name")
			pr.emit("$" + v.Name)
			d3()
			if v.Origin != nil {
				pr.emit("=")
				pr.call(v.Origin)
			}
			done()
		}
		pr.emit("}")
	}
	for _, s := range sc.Stmts {
		pr.stmt(s)
	}
}

// Layout decides the separator before token i (i == len(toks) → trailer).
type Layout struct {
	Kind int // 0 canonical, 1 compact, 2 whitespace mix, 3 comments, 4 one-token-per-line-ish, 5 everything
	R    *rng.R
	// LayoutLongLine: the gaps (token indices) that receive a very long comment, and its length
	Gaps map[int]bool
	Fill int
}

const (
	LayoutCanonical = iota
	LayoutCompact
	LayoutWhitespace
	LayoutComments
	LayoutLines
	LayoutWild
	NumLayouts
	// LayoutLongLine is not part of the rotation: single spaces, a few line breaks, and block
	// comments of Fill characters in the chosen gaps (lines far longer than 65 536 characters)
	LayoutLongLine = 100
)

// a carriage return on its own is white space for the lexer and does not start a new line
var wsSeps = []string{" ", "  ", "\t", "\n", "\r\n", "\n\n  ", " \t ", "\n\t", "\r", " \r "}
var commentSeps = []string{
	" /* c */ ", "\n/* multi\n   line */\n", " /* a /* nested */ b */ ", " /* é日本ß */ ", " // line\n", "\t// ß 日本\r\n",
	" /**/ ", " /* * / */ ", " //\n", " /* \"q\" */ ", " // ends at a carriage return\r",
}

func safeLeft(s string) bool {
	switch s {
	case "(", "[", "{", ",", "=":
		return true
	}
	return false
}
func safeRight(s string) bool {
	switch s {
	case ")", "]", "}", ",", "=", "(":
		return true
	}
	return false
}

// canGlue says whether two tokens may be written with nothing between them without changing
// the token sequence (conservative).
func canGlue(l, r string) bool {
	if l == "" || r == "" {
		return true
	}
	lc := l[len(l)-1]
	rc := r[0]
	// a token that starts with '$', '@' or '"' starts a new token after anything ($a$b, USD@a, 5"s"),
	// and so does anything after a closing quote
	if rc == '$' || rc == '@' || rc == '"' || lc == '"' {
		return true
	}
	if !(safeLeft(l) || safeRight(r)) {
		return false
	}
	bad := func(c byte) bool { return c == '/' || c == '*' || c == '-' || c == '+' }
	if bad(lc) || bad(rc) {
		return false
	}
	return true
}

func (l Layout) sep(left, right string, i, n int) string {
	edge := left == "" || right == ""
	switch l.Kind {
	case LayoutLongLine:
		if l.Gaps[i] {
			return " /*" + strings.Repeat("é", l.Fill) + "*/ "
		}
		if edge {
			return ""
		}
		if i%23 == 11 {
			return "\n"
		}
		return " "
	case LayoutCanonical:
		if edge {
			return ""
		}
		return " "
	case LayoutCompact:
		if edge || canGlue(left, right) {
			return ""
		}
		return " "
	case LayoutWhitespace:
		if edge && l.R.Bool() {
			return ""
		}
		return rng.PickOf(l.R, wsSeps)
	case LayoutComments:
		if l.R.Chance(1, 3) {
			return rng.PickOf(l.R, commentSeps)
		}
		if edge {
			return ""
		}
		return " "
	case LayoutLines:
		if edge {
			if right == "" {
				return "\n"
			}
			return ""
		}
		switch right {
		case "send", "save", "vars":
			return "\n\n"
		case "source", "destination":
			return "\n  "
		}
		if left == "{" || right == "}" {
			return "\n    "
		}
		if l.R.Chance(1, 4) {
			return "\n      "
		}
		return " "
	default:
		switch l.R.Intn(6) {
		case 0:
			if canGlue(left, right) {
				return ""
			}
			return " "
		case 1:
			return rng.PickOf(l.R, commentSeps)
		case 2:
			return rng.PickOf(l.R, wsSeps) + rng.PickOf(l.R, commentSeps) + rng.PickOf(l.R, wsSeps)
		default:
			return rng.PickOf(l.R, wsSeps)
		}
	}
}

// Print renders the script under a layout.
func Print(sc *Script, l Layout) *Printed {
	p := &Printed{first: map[NodeKey]int{}, last: map[NodeKey]int{}}
	pr := &printer{p: p}
	pr.script(sc)
	p.layout(l)
	return p
}

// PrintCanonical renders with single spaces.
func PrintCanonical(sc *Script) *Printed { return Print(sc, Layout{Kind: LayoutCanonical}) }

func (p *Printed) layout(l Layout) {
	var b strings.Builder
	n := len(p.toks)
	p.TokStart = make([]Pos, n)
	p.TokEnd = make([]Pos, n)
	p.TokOff = make([]int, n)
	p.TokText = make([]string, n)
	line, col := 0, 0
	p.Lines = nil
	advance := func(s string) {
		for _, r := range s {
			if r == '\n' {
				p.Lines = append(p.Lines, col)
				line++
				col = 0
			} else {
				col++
			}
		}
		b.WriteString(s)
	}
	prev := ""
	for i, t := range p.toks {
		advance(l.sep(prev, t.text, i, n))
		p.TokStart[i] = Pos{line, col}
		p.TokOff[i] = b.Len()
		p.TokText[i] = t.text
		advance(t.text)
		p.TokEnd[i] = Pos{line, col}
		prev = t.text
	}
	if n > 0 {
		advance(l.sep(prev, "", n, n))
	}
	p.Lines = append(p.Lines, col)
	p.Text = b.String()
}

// LineTable returns, for an arbitrary text, the number of code points of each line (lines are
// separated by '\n'; a trailing '\r' belongs to its line).
func LineTable(text string) []int {
	var out []int
	col := 0
	for _, r := range text {
		if r == '\n' {
			out = append(out, col)
			col = 0
		} else {
			col++
		}
	}
	return append(out, col)
}

// RuneLen is the number of code points of s.
func RuneLen(s string) int { return utf8.RuneCountInString(s) }
