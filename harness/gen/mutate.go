package gen

import (
	"strings"

	"github.com/formancehq/numscript/verifharness/rng"
)

// TokenAlphabet is the vocabulary used for token-level edits and token soups.
var TokenAlphabet = []string{
	"vars", "max", "source", "destination", "send", "from", "up", "to", "remaining", "allowing", "unbounded",
	"overdraft", "kept", "save", "(", ")", "[", "]", "{", "}", ",", "=", "*", "-", "+",
	"1/2", "50%", "12.5%", "1/0", `"s"`, `""`, "foo", "set_tx_meta", "meta", "balance", "monetary", "account", "number", "portion",
	"42", "-5", "0", "99999999999999999999", "$x", "$y", "$amount", "@a", "@world", "@users:001", "USD", "EUR/2",
}

// Soup builds a random token sequence.
func Soup(r *rng.R, maxLen int) string {
	k := 1 + r.Intn(maxLen)
	parts := make([]string, k)
	for j := range parts {
		parts[j] = TokenAlphabet[r.Intn(len(TokenAlphabet))]
	}
	sep := " "
	if r.Chance(1, 5) {
		sep = "\n"
	}
	return strings.Join(parts, sep)
}

var damageBytes = []string{"(", ")", "{", "}", "[", "]", "=", ",", "*", "-", "+", " ", "$", "@", "\"", "/", "%", "!", "a", "1", "Z", "\n", "\t", ".", ":", "_", "#", "\\", "é", "日", "\xff", "\xc3", "\x00", "😀", "//", "/*", "*/"}

// MutateTokens applies 1–3 token-level edits to a printed script (tokens re-joined by single
// spaces or newlines).
func MutateTokens(r *rng.R, toks []string) string {
	t := append([]string(nil), toks...)
	for m := 1 + r.Intn(3); m > 0 && len(t) > 0; m-- {
		j := r.Intn(len(t))
		switch r.Intn(6) {
		case 0: // delete
			t = append(t[:j], t[j+1:]...)
		case 1: // insert
			t = append(t[:j], append([]string{TokenAlphabet[r.Intn(len(TokenAlphabet))]}, t[j:]...)...)
		case 2: // replace
			t[j] = TokenAlphabet[r.Intn(len(TokenAlphabet))]
		case 3: // truncate
			t = t[:j]
		case 4: // duplicate
			t = append(t[:j], append([]string{t[j]}, t[j:]...)...)
		case 5: // swap
			k := r.Intn(len(t))
			t[j], t[k] = t[k], t[j]
		}
	}
	sep := " "
	if r.Chance(1, 6) {
		sep = "\n"
	}
	return strings.Join(t, sep)
}

// MutateBytes applies 1–3 byte-level edits (insert / delete / replace, incl. non-ASCII and
// invalid UTF-8).
func MutateBytes(r *rng.R, text string) string {
	b := []byte(text)
	for m := 1 + r.Intn(3); m > 0; m-- {
		if len(b) == 0 {
			b = append(b, damageBytes[r.Intn(len(damageBytes))]...)
			continue
		}
		j := r.Intn(len(b))
		d := damageBytes[r.Intn(len(damageBytes))]
		switch r.Intn(3) {
		case 0:
			b = append(b[:j], b[j+1:]...)
		case 1:
			b = append(b[:j], append([]byte(d), b[j:]...)...)
		case 2:
			b = append(b[:j], append([]byte(d), b[j+1:]...)...)
		}
	}
	return string(b)
}

// Unbalance removes or adds one bracket.
func Unbalance(r *rng.R, toks []string) string {
	t := append([]string(nil), toks...)
	var idx []int
	for i, x := range t {
		switch x {
		case "(", ")", "{", "}", "[", "]":
			idx = append(idx, i)
		}
	}
	if len(idx) > 0 && r.Bool() {
		j := idx[r.Intn(len(idx))]
		t = append(t[:j], t[j+1:]...)
	} else {
		j := r.Intn(len(t) + 1)
		t = append(t[:j], append([]string{r.Pick("(", ")", "{", "}", "[", "]")}, t[j:]...)...)
	}
	return strings.Join(t, " ")
}

// DropNames blanks a name or a type (states a user passes through while typing).
func DropNames(r *rng.R, toks []string) string {
	t := append([]string(nil), toks...)
	var idx []int
	for i, x := range t {
		if strings.HasPrefix(x, "$") || strings.HasPrefix(x, "@") || x == "monetary" || x == "account" || x == "number" || x == "portion" || x == "asset" || x == "string" {
			idx = append(idx, i)
		}
	}
	if len(idx) == 0 {
		return strings.Join(t, " ")
	}
	j := idx[r.Intn(len(idx))]
	switch r.Intn(3) {
	case 0:
		t = append(t[:j], t[j+1:]...)
	case 1:
		t[j] = t[j][:1]
	default:
		t[j] = t[j] + t[j]
	}
	return strings.Join(t, " ")
}
