package gen

import (
	"github.com/formancehq/numscript/verifharness/rng"
)

// SynCfg parameterises the grammar-complete generator: every alternative of every rule of
// Numscript.g4, nested up to Depth; syntactically valid only (types are arbitrary).
type SynCfg struct {
	Depth    int
	MaxStmts int
	MaxVars  int
	// Executable biases names towards declared variables, real type names and built-in
	// functions so that checking / executing the script gets past the first token.
	Executable bool
	NonASCII   bool // strings may contain BMP non-ASCII characters
	BigNums    bool // numbers beyond 64 bits
}

type sgen struct {
	r    *rng.R
	cfg  SynCfg
	vars []string
}

var synAssets = []string{"USD", "EUR/2", "COIN", "A", "X/Y/Z", "B2", "U/"}
var synAccounts = []string{"a", "b", "world", "acc", "users:001", "a-b_c:D", "x:y:z", "0"}
var synStrings = []string{"", "k", "hello world", "a b c", `q\"uote`, `say \"hi\"`, `\"`, `ends with \"`, `\"\"`, `back\slash`, "tab\there", "1/2", "$x @a", "// not a comment", "/* nor this */"}
var synStringsNA = []string{"é", "日本語", "ß→", "añb", "Ωmega", "é é", "日/本", "😀", "a😀b", "𝄞", "x😀😀", "é😀"}
var synFnNames = []string{"set_tx_meta", "set_account_meta", "meta", "balance", "overdraft", "foo", "a_b_", "x"}
var synTypes = []string{"monetary", "account", "portion", "asset", "number", "string", "foo", "bar_"}
var synVarNames = []string{"x", "y1", "_z", "amount", "a_b2", "p", "q", "acc", "v_", "fee", "fee1", "fee2", "source_a", "source_b", "source"}

func (g *sgen) number() *Num {
	switch g.r.Intn(10) {
	case 0:
		return &Num{Text: "0"}
	case 1:
		return &Num{Text: "-" + itoa(g.r.Intn(1000))}
	case 2:
		return &Num{Text: "00" + itoa(g.r.Intn(100))}
	case 3:
		if g.cfg.BigNums {
			return &Num{Text: g.r.Pick("18446744073709551616", "9223372036854775808", "-9223372036854775809", "123456789012345678901234567890", "99999999999999999999")}
		}
		return &Num{Text: "9223372036854775807"}
	default:
		return &Num{Text: itoa(g.r.Intn(200))}
	}
}

func itoa(i int) string {
	if i == 0 {
		return "0"
	}
	neg := i < 0
	if neg {
		i = -i
	}
	var b [24]byte
	p := len(b)
	for i > 0 {
		p--
		b[p] = byte('0' + i%10)
		i /= 10
	}
	if neg {
		p--
		b[p] = '-'
	}
	return string(b[p:])
}

func (g *sgen) portionLit() Expr {
	if g.r.Bool() {
		n, d := g.r.Intn(12), 1+g.r.Intn(12)
		sep := g.r.Pick("/", "/", "/", " /", "/ ", " / ")
		ns, ds := itoa(n), itoa(d)
		if g.r.Chance(1, 6) {
			ns = "0" + ns
		}
		if g.r.Chance(1, 6) {
			ds = "0" + ds
		}
		return &Ratio{Text: ns + sep + ds}
	}
	switch g.r.Intn(6) {
	case 4: // many decimals
		n := g.r.Range(4, 30)
		b := make([]byte, n)
		for i := range b {
			b[i] = byte('0' + g.r.Intn(10))
		}
		return &Percent{Text: itoa(g.r.Intn(100)) + "." + string(b) + "%"}
	case 5: // big ratio
		return &Ratio{Text: g.r.Pick("123456789012345678901/987654321098765432109", "1/18446744073709551616", "9223372036854775808/9223372036854775809", "00000000000000000001/3", "100000000000000000 / 3", "1/ 300000000000000000", "123456789012345678901 /7")}
	case 0:
		return &Percent{Text: itoa(g.r.Intn(101)) + "%"}
	case 1:
		return &Percent{Text: itoa(g.r.Intn(100)) + "." + itoa(g.r.Intn(1000)) + "%"}
	case 2:
		return &Percent{Text: "0" + itoa(g.r.Intn(10)) + "%"}
	default:
		return &Percent{Text: itoa(g.r.Intn(100)) + ".0" + itoa(g.r.Intn(10)) + "%"}
	}
}

func (g *sgen) varRef() *Var {
	if len(g.vars) > 0 && (g.cfg.Executable || g.r.Chance(3, 4)) {
		return &Var{Name: rng.PickOf(g.r, g.vars)}
	}
	return &Var{Name: rng.PickOf(g.r, synVarNames)}
}

func (g *sgen) str() *Str {
	if g.cfg.NonASCII && g.r.Chance(1, 2) {
		s := rng.PickOf(g.r, synStringsNA)
		if g.r.Bool() {
			s = rng.PickOf(g.r, synStrings) + s
		}
		return &Str{S: s}
	}
	return &Str{S: rng.PickOf(g.r, synStrings)}
}

func (g *sgen) atom(depth int) Expr {
	switch g.r.Intn(8) {
	case 0:
		return g.varRef()
	case 1:
		return &Asset{Name: rng.PickOf(g.r, synAssets)}
	case 2:
		return g.str()
	case 3:
		return &Account{Name: rng.PickOf(g.r, synAccounts)}
	case 4:
		return g.number()
	case 5:
		if depth > 0 {
			return &Mon{Asset: g.expr(depth - 1), Amount: g.expr(depth - 1)}
		}
		return &Mon{Asset: &Asset{Name: rng.PickOf(g.r, synAssets)}, Amount: g.number()}
	case 6:
		return g.portionLit()
	default:
		return g.varRef()
	}
}

// expr: atom (op atom)* — left-nested, as the grammar's left recursion associates.
func (g *sgen) expr(depth int) Expr {
	e := g.atom(depth)
	for depth > 0 && g.r.Chance(1, 5) {
		op := byte('+')
		if g.r.Bool() {
			op = '-'
		}
		e = &Infix{Op: op, L: e, R: g.atom(depth - 1)}
	}
	return e
}

func (g *sgen) allot() Allot {
	switch g.r.Intn(3) {
	case 0:
		return &AllotLit{Lit: g.portionLit()}
	case 1:
		return &AllotVar{V: g.varRef()}
	default:
		return &AllotRemaining{}
	}
}

func (g *sgen) source(depth int) Source {
	k := g.r.Intn(6)
	if depth <= 0 && k >= 3 {
		k = g.r.Intn(3)
	}
	switch k {
	case 0:
		return &SrcAccount{E: g.expr(depth)}
	case 1:
		return &SrcOverdraft{Addr: g.expr(depth)}
	case 2:
		return &SrcOverdraft{Addr: g.expr(depth), Bounded: g.expr(depth)}
	case 3:
		s := &SrcAllot{}
		for n := g.r.Range(1, 3); n > 0; n-- {
			s.Items = append(s.Items, &SrcAllotItem{A: g.allot(), From: g.source(depth - 1)})
		}
		return s
	case 4:
		s := &SrcInorder{}
		for n := g.r.Range(0, 3); n > 0; n-- {
			s.Srcs = append(s.Srcs, g.source(depth-1))
		}
		return s
	default:
		return &SrcCapped{Cap: g.expr(depth), From: g.source(depth - 1)}
	}
}

func (g *sgen) kod(depth int) *KOD {
	if g.r.Chance(1, 3) {
		return &KOD{Kept: true}
	}
	return &KOD{To: g.dest(depth)}
}

func (g *sgen) dest(depth int) Dest {
	k := g.r.Intn(3)
	if depth <= 0 {
		k = 0
	}
	switch k {
	case 0:
		return &DstAccount{E: g.expr(depth)}
	case 1:
		d := &DstAllot{}
		for n := g.r.Range(1, 3); n > 0; n-- {
			d.Items = append(d.Items, &DstAllotItem{A: g.allot(), To: g.kod(depth - 1)})
		}
		return d
	default:
		d := &DstInorder{}
		for n := g.r.Range(0, 3); n > 0; n-- {
			d.Clauses = append(d.Clauses, &DstClause{Cap: g.expr(depth), To: g.kod(depth - 1)})
		}
		d.Remaining = g.kod(depth - 1)
		return d
	}
}

func (g *sgen) sent(depth int) *SentValue {
	if g.r.Chance(1, 3) {
		return &SentValue{All: true, E: g.expr(depth)}
	}
	return &SentValue{E: g.expr(depth)}
}

func (g *sgen) call(depth int, origin bool) *Call {
	name := rng.PickOf(g.r, synFnNames)
	if g.cfg.Executable && g.r.Chance(3, 4) {
		if origin {
			name = g.r.Pick("meta", "balance", "overdraft")
		} else {
			name = g.r.Pick("set_tx_meta", "set_account_meta")
		}
	}
	c := &Call{Name: name}
	for n := g.r.Range(0, 3); n > 0; n-- {
		c.Args = append(c.Args, g.expr(depth))
	}
	return c
}

func (g *sgen) stmt(depth int) Stmt {
	switch g.r.Intn(5) {
	case 0:
		return &Save{Sent: g.sent(depth), From: g.expr(depth)}
	case 1:
		return g.call(depth, false)
	default:
		return &Send{Sent: g.sent(depth), Src: g.source(depth), Dst: g.dest(depth)}
	}
}

// GenSyn builds a syntactically valid script covering the grammar.
func GenSyn(r *rng.R, cfg SynCfg) *Script {
	g := &sgen{r: r, cfg: cfg}
	sc := &Script{}
	if cfg.MaxVars == 0 {
		cfg.MaxVars = 4
	}
	if r.Chance(3, 4) {
		sc.VarsBlock = true
		used := map[string]bool{}
		for n := r.Range(0, cfg.MaxVars); n > 0; n-- {
			name := rng.PickOf(r, synVarNames)
			if used[name] && (cfg.Executable || r.Chance(4, 5)) {
				continue
			}
			used[name] = true
			typ := rng.PickOf(r, synTypes)
			if cfg.Executable && r.Chance(5, 6) {
				typ = rng.PickOf(r, synTypes[:6])
			}
			d := &VarDecl{Type: typ, Name: name}
			if r.Chance(1, 4) {
				d.Origin = g.call(1, true)
			}
			sc.Vars = append(sc.Vars, d)
			g.vars = append(g.vars, name)
		}
	}
	if cfg.MaxStmts == 0 {
		cfg.MaxStmts = 3
	}
	for n := r.Range(0, cfg.MaxStmts); n > 0; n-- {
		sc.Stmts = append(sc.Stmts, g.stmt(cfg.Depth))
	}
	return sc
}
