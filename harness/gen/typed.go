package gen

import (
	"fmt"
	"math/big"
	"sort"
	"strings"

	"github.com/formancehq/numscript/verifharness/rng"
)

// Case is a script together with the inputs of an execution.
type Case struct {
	Script   *Script
	Vars     map[string]string
	Balances map[string]map[string]*big.Int
	Meta     map[string]map[string]string
	Flags    map[string]bool
	// Amount tuners, one per statement (nil when the statement has no tunable amount): set
	// the fixed amount of a send (wherever it is written: literal, variable, …).
	Tune []func(n *big.Int)
	// Notes describing what the generator put in (for distinctness keys).
	Tags map[string]bool
}

// Describe renders a case for evidence samples and replay files.
func (c *Case) Describe() map[string]any {
	bal := map[string]map[string]string{}
	for a, m := range c.Balances {
		bal[a] = map[string]string{}
		for k, v := range m {
			bal[a][k] = v.String()
		}
	}
	flags := []string{}
	for f, on := range c.Flags {
		if on {
			flags = append(flags, f)
		}
	}
	sort.Strings(flags)
	return map[string]any{
		"script":   PrintCanonical(c.Script).Text,
		"vars":     c.Vars,
		"balances": bal,
		"meta":     c.Meta,
		"flags":    flags,
	}
}

// LCfg parameterises the typed (executable) script generator. Probabilities are percentages.
type LCfg struct {
	Accounts []string
	Assets   []string
	MinStmts int
	MaxStmts int
	Depth    int
	Fanout   int

	PWorld            int // a source leaf is @world
	PVarAcct          int // an account is written through a variable
	PVarAmt           int // an amount is written through a variable
	PInfix            int // an amount is computed with + / -
	PRepeat           int // a source leaf repeats an account already used in this statement
	POverdraft        int // a source leaf carries an overdraft clause
	PUnbounded        int // ... which is unbounded (given POverdraft)
	PSrcCap           int
	PSrcAllot         int
	PSrcSeq           int
	PFunded           int  // percent of starting balances that are plainly positive (1..30)
	PSaveDrawn        int  // percent of saves that name an account drawn from by an earlier statement, and of source picks that name a saved account
	Ladder            bool // long sources / destinations take their length from a ladder of sizes around powers of two up to 1025
	PLongDst          int  // percent of plain sends whose destination is a flat ordered list of 12..Fanout capped clauses
	PAligned          int  // percent of statements that are "aligned" sends (see alignedSend)
	PLongSrc          int  // percent of plain sends whose source is a flat list of 12..Fanout entries
	PDstSeq           int
	PDstAllot         int
	PKept             int
	PSave             int
	PSendAll          int
	PMetaStmt         int
	PNegCap           int // a cap / overdraft bound is negative or zero
	PBig              int // a number is huge (> 2^64)
	POriginVar        int // an amount comes from balance()/overdraft()/meta()
	PPortionVar       int
	PRemaining        int
	PRemAnywhere      int // percent of allotments with `remaining` whose remaining clause is moved to a random position (0: always last)
	PNegBal           int  // a starting balance is negative (0 = default mix)
	PAbsent           int  // a starting balance is absent (default 16)
	BigLiterals       bool // numbers beyond int64 may be written as literals
	MultiAsset        bool // statements may use different assets
	DestWorld         bool
	AllowUndetermined bool // remaining with portions above one etc.
}

// DefaultLCfg is the general mix.
func DefaultLCfg() LCfg {
	return LCfg{
		Accounts: []string{"a", "b", "c", "d"}, Assets: []string{"USD", "EUR/2", "COIN"},
		MinStmts: 1, MaxStmts: 4, Depth: 3, Fanout: 3,
		PWorld: 10, PVarAcct: 20, PVarAmt: 20, PInfix: 10, PRepeat: 30, POverdraft: 25, PUnbounded: 25,
		PSrcCap: 20, PSrcAllot: 15, PSrcSeq: 30, PDstSeq: 30, PDstAllot: 20, PKept: 20,
		PSave: 15, PSendAll: 25, PMetaStmt: 8, PNegCap: 12, PBig: 6, POriginVar: 6, PPortionVar: 15, PRemaining: 40,
		MultiAsset: true, DestWorld: true,
	}
}

type amtVar struct {
	expr Expr
	set  func(*big.Int)
}

type lgen struct {
	r        *rng.R
	cfg      LCfg
	c        *Case
	nvar     int
	asset    string              // current statement asset
	used     []string            // accounts used in the current source
	drawn    []string            // accounts earlier statements drew from
	saved    []string            // accounts named by earlier saves
	acctVars map[string]string   // value -> var name (reuse)
	numVars  map[string]string   // decimal text -> number variable holding it
	porVars  map[string]string   // portion text -> portion variable holding it
	monVars  map[string][]string // asset -> monetary variables of that asset (free-valued uses)
	lastAmt  map[string]*amtVar  // asset -> a tunable amount variable of an earlier statement
}

func (g *lgen) pct(p int) bool { return p > 0 && g.r.Intn(100) < p }

func (g *lgen) fresh(prefix string) string {
	g.nvar++
	// variable names: [a-z_]+[a-z0-9_]*; now and then a name that resembles a keyword or a
	// reserved account
	if g.r.Chance(1, 10) {
		prefix = g.r.Pick("_", "world", "kept", "remaining_", "source_", "to_", "max", "send_", "vars_", "x", "overdraft_", "a_b_c_")
	}
	return fmt.Sprintf("%s%d", prefix, g.nvar)
}

func (g *lgen) declare(typ, name, text string) *Var {
	g.c.Script.Vars = append(g.c.Script.Vars, &VarDecl{Type: typ, Name: name})
	g.c.Vars[name] = text
	return &Var{Name: name}
}

var two64 = new(big.Int).Lsh(big.NewInt(1), 64)
var two63 = new(big.Int).Lsh(big.NewInt(1), 63)

// SmallOrBig draws a non-negative number from a boundary-biased distribution.
func SmallOrBig(r *rng.R, pBig int) *big.Int {
	if pBig > 0 && r.Intn(100) < pBig {
		switch r.Intn(8) {
		case 6: // inside the window where signed and unsigned 64-bit readings differ
			return new(big.Int).Add(two63, new(big.Int).SetUint64(r.U64()>>1))
		case 7: // exact multiples of 2^64 and 2^32
			if r.Bool() {
				return new(big.Int).Mul(two64, big.NewInt(int64(1+r.Intn(3))))
			}
			return new(big.Int).Lsh(big.NewInt(int64(1+r.Intn(3))), 32)
		case 0:
			return new(big.Int).Add(two64, big.NewInt(int64(r.Intn(3)-1)))
		case 1:
			return new(big.Int).Add(two63, big.NewInt(int64(r.Intn(3)-1)))
		case 2:
			z, _ := new(big.Int).SetString("1000000000000000000000000000000", 10)
			return z.Add(z, big.NewInt(int64(r.Intn(7))))
		case 3:
			return r.Big(70 + r.Intn(60))
		case 4:
			return new(big.Int).SetUint64(r.U64() >> 1) // just inside int64
		default:
			return r.Big(65)
		}
	}
	switch r.Intn(12) {
	case 11: // round / magic values
		return bigOf(r.Pick("65535", "65536", "2147483647", "2147483648", "4294967295", "4294967296", "1000000000", "1000000000000000000", "100", "255", "256", "1024", "9007199254740993"))
	case 10: // mid-size: 20..62 bits
		return r.Big(20 + r.Intn(43))
	case 0:
		return big.NewInt(0)
	case 1:
		return big.NewInt(1)
	case 2, 3:
		return big.NewInt(int64(r.Intn(100)))
	default:
		return big.NewInt(int64(r.Intn(31)))
	}
}

func bigOf(s string) *big.Int {
	z, _ := new(big.Int).SetString(s, 10)
	return z
}

func fitsInt(n *big.Int) bool {
	return n.IsInt64()
}

func (g *lgen) account() string {
	if len(g.saved) > 0 && g.pct(g.cfg.PSaveDrawn) {
		return rng.PickOf(g.r, g.saved)
	}
	if len(g.used) > 0 && g.pct(g.cfg.PRepeat) {
		return rng.PickOf(g.r, g.used)
	}
	return rng.PickOf(g.r, g.cfg.Accounts)
}

func (g *lgen) accountExpr(name string) Expr {
	if g.pct(g.cfg.PVarAcct) {
		if v, ok := g.acctVars[name]; ok && g.r.Bool() {
			return &Var{Name: v}
		}
		vn := g.fresh("acc")
		g.acctVars[name] = vn
		return g.declare("account", vn, name)
	}
	return &Account{Name: name}
}

func (g *lgen) assetExpr(asset string) Expr {
	// an asset name that cannot be written as a literal (it holds a ':') arrives through a variable
	if strings.Contains(asset, ":") || g.pct(g.cfg.PVarAcct/2) {
		if name, ok := g.acctVars["asset:"+asset]; ok && g.r.Chance(2, 3) {
			return &Var{Name: name}
		}
		name := g.fresh("ast")
		g.acctVars["asset:"+asset] = name
		return g.declare("asset", name, asset)
	}
	return &Asset{Name: asset}
}

// numberExpr writes n as a number-typed expression.
func (g *lgen) numberExpr(n *big.Int, depth int) Expr {
	lit := g.cfg.BigLiterals || fitsInt(n)
	if depth > 0 && g.pct(g.cfg.PInfix) {
		k := SmallOrBig(g.r, 0)
		if g.r.Bool() {
			// n = (n-k) + k
			return &Infix{Op: '+', L: g.numberExpr(new(big.Int).Sub(n, k), depth-1), R: g.numberAtom(k)}
		}
		return &Infix{Op: '-', L: g.numberExpr(new(big.Int).Add(n, k), depth-1), R: g.numberAtom(k)}
	}
	if !lit || g.pct(g.cfg.PVarAmt) {
		return g.numberVar(n)
	}
	return &Num{Text: n.String()}
}

// freeMonetary writes a monetary expression whose value is the generator's to choose (caps,
// overdraft bounds, saved amounts): either a fresh one or a monetary variable already in use.
func (g *lgen) freeMonetary(asset string) Expr {
	if vs := g.monVars[asset]; len(vs) > 0 && g.pct(30) {
		return &Var{Name: rng.PickOf(g.r, vs)}
	}
	e, _ := g.monetaryExpr(asset, g.capValue(), false)
	if v, ok := e.(*Var); ok {
		g.monVars[asset] = append(g.monVars[asset], v.Name)
	}
	return e
}

func (g *lgen) numberVar(n *big.Int) Expr {
	// the same number is usually written through the same variable (a variable used twice)
	if name, ok := g.numVars[n.String()]; ok && g.r.Chance(3, 4) {
		return &Var{Name: name}
	}
	name := g.fresh("n")
	g.numVars[n.String()] = name
	return g.declare("number", name, n.String())
}

func (g *lgen) numberAtom(n *big.Int) Expr {
	if !(g.cfg.BigLiterals || fitsInt(n)) || g.pct(g.cfg.PVarAmt) {
		return g.numberVar(n)
	}
	return &Num{Text: n.String()}
}

// monetaryExpr writes [asset n] as a monetary-typed expression; the returned setter rewrites
// the amount wherever it lives.
func (g *lgen) monetaryExpr(asset string, n *big.Int, tunable bool) (Expr, func(*big.Int)) {
	lit := g.cfg.BigLiterals || fitsInt(n)
	if !tunable && g.pct(g.cfg.PInfix) {
		k := SmallOrBig(g.r, 0)
		l, _ := g.monetaryExpr(asset, new(big.Int).Add(n, k), false)
		if _, isInfix := l.(*Infix); !isInfix || g.r.Bool() {
			r := &Mon{Asset: g.assetExpr(asset), Amount: g.numberAtom(k)}
			return &Infix{Op: '-', L: l, R: r}, nil
		}
	}
	if g.pct(g.cfg.PVarAmt) || (!lit && tunable) {
		name := g.fresh("m")
		v := g.declare("monetary", name, asset+" "+n.String())
		return v, func(x *big.Int) { g.c.Vars[name] = asset + " " + x.String() }
	}
	if tunable {
		if g.r.Chance(1, 4) {
			name := g.fresh("n")
			nv := g.declare("number", name, n.String())
			return &Mon{Asset: g.assetExpr(asset), Amount: nv}, func(x *big.Int) { g.c.Vars[name] = x.String() }
		}
		// NB: tuning a literal beyond int64 needs BigLiterals
		num := &Num{Text: n.String()}
		return &Mon{Asset: g.assetExpr(asset), Amount: num}, func(x *big.Int) { num.Text = x.String() }
	}
	return &Mon{Asset: g.assetExpr(asset), Amount: g.numberExpr(n, 1)}, nil
}

func (g *lgen) capValue() *big.Int {
	if g.pct(g.cfg.PNegCap) {
		if g.r.Bool() {
			return big.NewInt(0)
		}
		return big.NewInt(-int64(1 + g.r.Intn(10)))
	}
	return SmallOrBig(g.r, g.cfg.PBig)
}

func (g *lgen) portionLit(p *big.Rat) Expr {
	// write p as ratio or (when exact) as a percentage
	if g.r.Chance(1, 3) {
		// p = x/100^k ?
		for dec := 0; dec <= 12; dec++ {
			den := new(big.Int).Exp(big.NewInt(10), big.NewInt(int64(2+dec)), nil)
			num := new(big.Rat).Mul(p, new(big.Rat).SetInt(den))
			if num.IsInt() {
				s := num.Num().String()
				if g.r.Chance(1, 4) {
					// the same value written with more decimals (any number up to 24)
					intPart, frac := s, ""
					if dec > 0 {
						for len(s) <= dec {
							s = "0" + s
						}
						intPart, frac = s[:len(s)-dec], s[len(s)-dec:]
					}
					pad := 1 + g.r.Intn(24-dec)
					if g.r.Chance(1, 5) {
						// far more decimals than anyone needs
						pad = []int{40, 61, 62, 63, 64, 65, 70, 100, 200}[g.r.Intn(9)]
					}
					frac += strings.Repeat("0", pad)
					return &Percent{Text: intPart + "." + frac + "%"}
				}
				if dec == 0 {
					if g.r.Chance(1, 5) {
						return &Percent{Text: s + "." + g.r.Pick("0", "00", "000") + "%"}
					}
					return &Percent{Text: s + "%"}
				}
				for len(s) <= dec {
					s = "0" + s
				}
				return &Percent{Text: s[:len(s)-dec] + "." + s[len(s)-dec:] + "%"}
			}
		}
	}
	num, den := new(big.Int).Set(p.Num()), new(big.Int).Set(p.Denom())
	if g.r.Chance(1, 4) {
		k := big.NewInt(int64(2 + g.r.Intn(3)))
		num.Mul(num, k)
		den.Mul(den, k)
	}
	sep := "/"
	if g.r.Chance(1, 6) {
		sep = g.r.Pick(" /", "/ ", " / ")
	}
	return &Ratio{Text: num.String() + sep + den.String()}
}

// portions picks k portions summing to one and how each is written.
func (g *lgen) portions(k int) []Allot {
	dens := []int64{2, 3, 4, 5, 6, 7, 8, 10, 12, 100}
	den := dens[g.r.Intn(len(dens))]
	if g.r.Chance(1, 12) {
		// many-digit portions (long-decimal percentages, ratios with big terms)
		den = []int64{10000000000, 3000000019, 99999999977, 1000000000000}[g.r.Intn(4)]
	}
	parts := make([]int64, k)
	left := den
	for i := 0; i < k-1; i++ {
		parts[i] = int64(g.r.U64() % uint64(left+1))
		if g.r.Chance(1, 8) {
			parts[i] = 0
		}
		left -= parts[i]
	}
	parts[k-1] = left
	out := make([]Allot, k)
	useRem := g.pct(g.cfg.PRemaining)
	remPos := k - 1
	if useRem && g.cfg.PRemAnywhere > 0 && g.pct(g.cfg.PRemAnywhere) {
		remPos = g.r.Intn(k)
		parts[remPos], parts[k-1] = parts[k-1], parts[remPos]
	}
	for i := range parts {
		p := big.NewRat(parts[i], den)
		switch {
		case useRem && i == remPos:
			out[i] = &AllotRemaining{}
		case g.pct(g.cfg.PPortionVar):
			key := p.String()
			if name, ok := g.porVars[key]; ok && g.r.Chance(3, 4) {
				out[i] = &AllotVar{V: &Var{Name: name}}
				break
			}
			name := g.fresh("p")
			txt := fmt.Sprintf("%d/%d", parts[i], den)
			if parts[i]*100%den == 0 && g.r.Bool() {
				txt = fmt.Sprintf("%d%%", parts[i]*100/den)
			} else if parts[i]*1000%den == 0 && g.r.Bool() {
				v := parts[i] * 1000 / den
				txt = fmt.Sprintf("%d.%d%%", v/10, v%10)
			}
			g.porVars[key] = name
			out[i] = &AllotVar{V: g.declare("portion", name, txt)}
		default:
			out[i] = &AllotLit{Lit: g.portionLit(p)}
		}
	}
	return out
}

func (g *lgen) srcLeaf(allowUnbounded bool) Source {
	var name string
	if allowUnbounded && g.pct(g.cfg.PWorld) {
		name = "world"
	} else {
		name = g.account()
		if !allowUnbounded && name == "world" {
			// a repeated pick must not smuggle @world into a position where it is not allowed
			name = rng.PickOf(g.r, g.cfg.Accounts)
		}
	}
	g.used = append(g.used, name)
	if name != "world" {
		g.drawn = append(g.drawn, name)
	}
	if name == "world" && g.pct(g.cfg.POverdraft/2) {
		// a (pointless but legal) bounded overdraft on @world
		return &SrcOverdraft{Addr: &Account{Name: "world"}, Bounded: g.freeMonetary(g.asset)}
	}
	if name != "world" && g.pct(g.cfg.POverdraft) {
		if allowUnbounded && g.pct(g.cfg.PUnbounded) {
			g.c.Tags["unbounded:"+name] = true
			return &SrcOverdraft{Addr: g.accountExpr(name)}
		}
		return &SrcOverdraft{Addr: g.accountExpr(name), Bounded: g.freeMonetary(g.asset)}
	}
	return &SrcAccount{E: g.accountExpr(name)}
}

// source builds a source tree. all: send-all mode (unbounded / allotment only under a cap).
func (g *lgen) source(depth int, all bool) Source {
	if depth <= 0 {
		return g.srcLeaf(!all)
	}
	w := g.r.Intn(100)
	switch {
	case w < g.cfg.PSrcSeq:
		n := g.r.Range(0, g.cfg.Fanout)
		if g.r.Chance(3, 4) && n == 0 {
			n = 2
		}
		s := &SrcInorder{}
		for i := 0; i < n; i++ {
			s.Srcs = append(s.Srcs, g.source(depth-1, all))
		}
		return s
	case w < g.cfg.PSrcSeq+g.cfg.PSrcCap:
		return &SrcCapped{Cap: g.freeMonetary(g.asset), From: g.source(depth-1, false)}
	case w < g.cfg.PSrcSeq+g.cfg.PSrcCap+g.cfg.PSrcAllot && !all:
		k := g.r.Range(1, g.cfg.Fanout)
		heads := g.portions(k)
		s := &SrcAllot{}
		for i := 0; i < k; i++ {
			s.Items = append(s.Items, &SrcAllotItem{A: heads[i], From: g.source(depth-1, false)})
		}
		return s
	}
	return g.srcLeaf(!all)
}

func (g *lgen) kod(depth int) *KOD {
	if g.pct(g.cfg.PKept) {
		return &KOD{Kept: true}
	}
	return &KOD{To: g.dest(depth)}
}

func (g *lgen) dest(depth int) Dest {
	leaf := func() Dest {
		pool := g.cfg.Accounts
		name := rng.PickOf(g.r, pool)
		if g.cfg.DestWorld && g.r.Chance(1, 12) {
			name = "world"
		}
		return &DstAccount{E: g.accountExpr(name)}
	}
	if depth <= 0 {
		return leaf()
	}
	w := g.r.Intn(100)
	switch {
	case w < g.cfg.PDstSeq:
		d := &DstInorder{}
		n := g.r.Range(0, g.cfg.Fanout)
		for i := 0; i < n; i++ {
			d.Clauses = append(d.Clauses, &DstClause{Cap: g.freeMonetary(g.asset), To: g.kod(depth - 1)})
		}
		d.Remaining = g.kod(depth - 1)
		return d
	case w < g.cfg.PDstSeq+g.cfg.PDstAllot:
		k := g.r.Range(1, g.cfg.Fanout)
		heads := g.portions(k)
		d := &DstAllot{}
		for i := 0; i < k; i++ {
			d.Items = append(d.Items, &DstAllotItem{A: heads[i], To: g.kod(depth - 1)})
		}
		return d
	}
	return leaf()
}

func (g *lgen) stmt() {
	if g.cfg.MultiAsset {
		g.asset = rng.PickOf(g.r, g.cfg.Assets)
	}
	g.used = nil
	w := g.r.Intn(100)
	if g.pct(g.cfg.PAligned) {
		g.alignedSend()
		return
	}
	switch {
	case w < g.cfg.PSave:
		acct := g.account()
		if len(g.drawn) > 0 && g.pct(g.cfg.PSaveDrawn) {
			// mostly one of the accounts the previous statements drew from last
			acct = g.drawn[len(g.drawn)-1-g.r.Intn(minInt(len(g.drawn), 6))]
		}
		g.saved = append(g.saved, acct)
		var sv *SentValue
		if g.r.Chance(1, 4) {
			sv = &SentValue{All: true, E: g.assetExpr(g.asset)}
		} else {
			sv = &SentValue{E: g.freeMonetary(g.asset)}
		}
		g.c.Script.Stmts = append(g.c.Script.Stmts, &Save{Sent: sv, From: g.accountExpr(acct)})
		g.c.Tune = append(g.c.Tune, nil)
	case w < g.cfg.PSave+g.cfg.PMetaStmt:
		var call *Call
		val := g.anyValueExpr()
		if g.r.Bool() {
			call = &Call{Name: "set_tx_meta", Args: []Expr{&Str{S: g.metaKey()}, val}}
		} else {
			call = &Call{Name: "set_account_meta", Args: []Expr{g.accountExpr(g.account()), &Str{S: g.metaKey()}, val}}
		}
		g.c.Script.Stmts = append(g.c.Script.Stmts, call)
		g.c.Tune = append(g.c.Tune, nil)
	case w < g.cfg.PSave+g.cfg.PMetaStmt+g.cfg.PSendAll:
		sv := &SentValue{All: true, E: g.assetExpr(g.asset)}
		src := g.source(g.r.Range(0, g.cfg.Depth), true)
		dst := g.dest(g.r.Range(0, g.cfg.Depth))
		g.c.Script.Stmts = append(g.c.Script.Stmts, &Send{Sent: sv, Src: src, Dst: dst})
		g.c.Tune = append(g.c.Tune, nil)
	default:
		n := SmallOrBig(g.r, g.cfg.PBig)
		var e Expr
		var set func(*big.Int)
		if g.pct(g.cfg.POriginVar) {
			// amount read from the store
			name := g.fresh("bal")
			acct := rng.PickOf(g.r, g.cfg.Accounts)
			if g.r.Chance(1, 8) {
				acct = "world" // never requested from the store: reads as zero whatever the store holds
				g.c.Tags["origin-world"] = true
			}
			fn := "balance"
			if g.r.Chance(1, 3) {
				fn = "overdraft"
				g.c.Flags["experimental-overdraft-function"] = true
			}
			assetArg := g.assetExpr(g.asset) // may declare an asset variable: before the origin that reads it
			g.c.Script.Vars = append(g.c.Script.Vars, &VarDecl{Type: "monetary", Name: name,
				Origin: &Call{Name: fn, Args: []Expr{&Account{Name: acct}, assetArg}}})
			g.c.Tags["origin"] = true
			e = &Var{Name: name}
			g.lastAmt[g.asset] = &amtVar{expr: e}
			g.monVars[g.asset] = append(g.monVars[g.asset], name)
		} else if prev := g.lastAmt[g.asset]; prev != nil && g.pct(20) {
			// the amount variable of an earlier statement is used again
			e, set = CopyExpr(prev.expr), prev.set
			g.c.Tags["amount-variable-reused"] = true
		} else {
			e, set = g.monetaryExpr(g.asset, n, true)
			switch x := e.(type) {
			case *Var:
				g.lastAmt[g.asset] = &amtVar{expr: x, set: set}
			case *Mon:
				if v, ok := x.Amount.(*Var); ok {
					_ = v
					g.lastAmt[g.asset] = &amtVar{expr: x, set: set}
				}
			}
		}
		src := g.source(g.r.Range(0, g.cfg.Depth), false)
		if g.pct(g.cfg.PLongSrc) {
			src = g.longSource()
		}
		dst := g.dest(g.r.Range(0, g.cfg.Depth))
		if g.pct(g.cfg.PLongDst) {
			dst = g.longDest()
		}
		g.c.Script.Stmts = append(g.c.Script.Stmts, &Send{Sent: &SentValue{E: e}, Src: src, Dst: dst})
		g.c.Tune = append(g.c.Tune, set)
	}
}

// Resplit cuts the text a + ":" + b at another colon: (x:y, z) -> (x, y:z).
func Resplit(r *rng.R, a, b string) (string, string, bool) {
	return ResplitSep(r, a, b, ':')
}

// ResplitSep is Resplit for another joining character (':', '-', '_').
func ResplitSep(r *rng.R, a, b string, sep byte) (string, string, bool) {
	joined := a + string(sep) + b
	var cuts []int
	for i := 0; i < len(joined); i++ {
		if joined[i] == sep && i != len(a) && i > 0 && i < len(joined)-1 && joined[i-1] != ':' && joined[i+1] != ':' {
			cuts = append(cuts, i)
		}
	}
	if len(cuts) == 0 {
		return "", "", false
	}
	i := cuts[r.Intn(len(cuts))]
	return joined[:i], joined[i+1:], true
}

// alignedSend emits a send whose source is an in-order list s1..sk and whose destination is an
// in-order list of caps, cap i being exactly what source i holds: the boundaries between the
// senders and between the receivers coincide. Consecutive (source, destination) pairs are now and
// then two different splits of one colon-joined text (a:b → c, then a → b:c).
func (g *lgen) alignedSend() {
	k := g.r.Range(2, 4)
	src := &SrcInorder{}
	dst := &DstInorder{}
	total := new(big.Int)
	seen := map[string]bool{}
	ps, pd := "", ""
	for i := 0; i < k; i++ {
		s, d := g.account(), g.account()
		if i > 0 && g.r.Chance(2, 3) {
			// the same text joined by ':', '-' or '_' and cut at another place
			for _, sep := range []byte{":-_"[g.r.Intn(3)], ':', '-', '_'} {
				if s2, d2, ok := ResplitSep(g.r, ps, pd, sep); ok {
					s, d = s2, d2
					break
				}
			}
		}
		if seen[s] || s == "world" || d == "world" {
			continue
		}
		seen[s] = true
		ps, pd = s, d
		if g.c.Balances[s] == nil {
			g.c.Balances[s] = map[string]*big.Int{}
		}
		bal := g.c.Balances[s][g.asset]
		if bal == nil || bal.Sign() <= 0 {
			bal = big.NewInt(int64(1 + g.r.Intn(9)))
			g.c.Balances[s][g.asset] = bal
		}
		total.Add(total, bal)
		src.Srcs = append(src.Srcs, &SrcAccount{E: &Account{Name: s}})
		cap, _ := g.monetaryExpr(g.asset, new(big.Int).Set(bal), false)
		dst.Clauses = append(dst.Clauses, &DstClause{Cap: cap, To: &KOD{To: &DstAccount{E: &Account{Name: d}}}})
	}
	if len(src.Srcs) == 0 {
		src.Srcs = append(src.Srcs, &SrcAccount{E: &Account{Name: "world"}})
		total.SetInt64(3)
	}
	switch g.r.Intn(3) {
	case 0:
		dst.Remaining = &KOD{Kept: true}
	case 1:
		dst.Remaining = &KOD{To: &DstAccount{E: &Account{Name: g.account()}}}
	default:
		// the last capped clause becomes the remaining one
		if n := len(dst.Clauses); n > 0 {
			dst.Remaining = dst.Clauses[n-1].To
			dst.Clauses = dst.Clauses[:n-1]
		} else {
			dst.Remaining = &KOD{Kept: true}
		}
	}
	e, _ := g.monetaryExpr(g.asset, total, false)
	g.c.Script.Stmts = append(g.c.Script.Stmts, &Send{Sent: &SentValue{E: e}, Src: src, Dst: dst})
	g.c.Tune = append(g.c.Tune, nil)
	g.c.Tags["aligned"] = true
}

// longLen draws the length of a long list: uniform in [12, hi], or, with cfg.Ladder, a size next
// to a power of two (list lengths where buffers, pages and indexes change regime).
func (g *lgen) longLen(hi int) int {
	if !g.cfg.Ladder {
		return g.r.Range(12, hi)
	}
	sizes := []int{15, 16, 17, 31, 32, 33, 63, 64, 65, 127, 128, 129, 255, 256, 257, 511, 512, 513, 999, 1000, 1001, 1023, 1024, 1025}
	var ok []int
	for _, s := range sizes {
		if s <= hi {
			ok = append(ok, s)
		}
	}
	if len(ok) == 0 {
		return hi
	}
	// the long ones are expensive: favour them only mildly
	return ok[g.r.Intn(len(ok))]
}

// longDest is a flat ordered destination of many capped clauses (small caps) and a remaining one.
func (g *lgen) longDest() Dest {
	hi := g.cfg.Fanout
	if hi < 14 {
		hi = 14
	}
	k := g.longLen(hi)
	d := &DstInorder{}
	for i := 0; i < k; i++ {
		cap, _ := g.monetaryExpr(g.asset, big.NewInt(int64(g.r.Intn(4))), false)
		var to *KOD
		if g.r.Chance(1, 12) {
			to = &KOD{Kept: true}
		} else {
			to = &KOD{To: &DstAccount{E: g.accountExpr(rng.PickOf(g.r, g.cfg.Accounts))}}
		}
		d.Clauses = append(d.Clauses, &DstClause{Cap: cap, To: to})
	}
	d.Remaining = &KOD{To: &DstAccount{E: g.accountExpr(rng.PickOf(g.r, g.cfg.Accounts))}}
	g.c.Tags["long-destination"] = true
	return d
}

// longSource is a flat in-order source of a dozen to Fanout entries, some of them capped (so that
// the account keeps funds for later entries and statements), accounts repeating now and then.
func (g *lgen) longSource() Source {
	hi := g.cfg.Fanout
	if hi < 14 {
		hi = 14
	}
	k := g.longLen(hi)
	// mostly distinct accounts (a random selection of the pool, completed by random picks when the
	// pool is smaller than the list), then a few accounts of the list once more at the end
	pool := append([]string(nil), g.cfg.Accounts...)
	g.r.Shuffle(len(pool), func(i, j int) { pool[i], pool[j] = pool[j], pool[i] })
	s := &SrcInorder{}
	var listed []string
	add := func(name string, mayCap bool) {
		g.drawn = append(g.drawn, name)
		listed = append(listed, name)
		var e Source = &SrcAccount{E: g.accountExpr(name)}
		if g.pct(g.cfg.POverdraft / 3) {
			// now and then an entry with a bounded overdraft
			e = &SrcOverdraft{Addr: g.accountExpr(name), Bounded: g.freeMonetary(g.asset)}
		} else if mayCap && g.r.Chance(1, 4) {
			cap, _ := g.monetaryExpr(g.asset, big.NewInt(int64(g.r.Intn(12))), false)
			e = &SrcCapped{Cap: cap, From: e}
		}
		s.Srcs = append(s.Srcs, e)
	}
	for i := 0; i < k; i++ {
		if i < len(pool) && !g.pct(g.cfg.PRepeat) {
			add(pool[i], true)
		} else {
			add(g.account(), true)
		}
	}
	for n := g.r.Intn(4); n > 0; n-- {
		add(listed[g.r.Intn(len(listed))], g.r.Bool())
	}
	g.c.Tags["long-source"] = true
	return s
}

func (g *lgen) metaKey() string {
	if g.r.Chance(1, 8) {
		return g.r.Pick("", "a b", "é", "K", "k.k", "key-with-a-rather-long-name-to-see-if-length-matters-anywhere-0123456789", "world", "<kept>")
	}
	return g.r.Pick("k", "k2", "memo")
}

func (g *lgen) anyValueExpr() Expr {
	switch g.r.Intn(7) {
	case 0:
		return &Str{S: g.r.Pick("hello", "", "x y", "é日本")}
	case 1:
		return g.numberExpr(SmallOrBig(g.r, g.cfg.PBig), 1)
	case 2:
		e, _ := g.monetaryExpr(g.asset, SmallOrBig(g.r, g.cfg.PBig), false)
		return e
	case 3:
		return g.accountExpr(g.account())
	case 4:
		return g.assetExpr(g.asset)
	case 5:
		return g.portionLit(big.NewRat(int64(g.r.Intn(8)), 7))
	default:
		return g.numberExpr(new(big.Int).Neg(SmallOrBig(g.r, g.cfg.PBig)), 0)
	}
}

// Balance draws a starting balance from a boundary-biased distribution.
func Balance(r *rng.R, pBig, pNeg int) *big.Int {
	if pNeg > 0 && r.Intn(100) < pNeg {
		if pBig > 0 && r.Chance(1, 5) {
			return new(big.Int).Neg(SmallOrBig(r, 50))
		}
		return big.NewInt(-int64(1 + r.Intn(12)))
	}
	switch r.Intn(12) {
	case 0, 1:
		return big.NewInt(0)
	case 2:
		return big.NewInt(-int64(1 + r.Intn(10)))
	case 3:
		if pBig > 0 {
			return new(big.Int).Neg(SmallOrBig(r, 30))
		}
		return big.NewInt(-int64(r.Intn(5)))
	default:
		return SmallOrBig(r, pBig)
	}
}

// GenLedger builds a typed, executable case.
func GenLedger(r *rng.R, cfg LCfg) *Case {
	c := &Case{Script: &Script{}, Vars: map[string]string{}, Balances: map[string]map[string]*big.Int{},
		Meta: map[string]map[string]string{}, Flags: map[string]bool{}, Tags: map[string]bool{}}
	g := &lgen{r: r, cfg: cfg, c: c, acctVars: map[string]string{}, numVars: map[string]string{}, porVars: map[string]string{},
		monVars: map[string][]string{}, lastAmt: map[string]*amtVar{}}
	g.asset = rng.PickOf(r, cfg.Assets)
	n := r.Range(cfg.MinStmts, cfg.MaxStmts)
	for i := 0; i < n; i++ {
		g.stmt()
	}
	// origins must be declared after the plain variables they might use: they use literals only.
	// balances
	for _, a := range cfg.Accounts {
		for _, as := range cfg.Assets {
			pa := cfg.PAbsent
			if pa == 0 {
				pa = 16
			}
			if r.Intn(100) < pa {
				continue // absent
			}
			if c.Balances[a] == nil {
				c.Balances[a] = map[string]*big.Int{}
			}
			if c.Balances[a][as] != nil {
				continue // fixed while the statements were generated
			}
			c.Balances[a][as] = Balance(r, cfg.PBig, cfg.PNegBal)
			if r.Intn(100) < cfg.PFunded {
				c.Balances[a][as] = big.NewInt(int64(1 + r.Intn(30)))
			}
		}
	}
	// what the store happens to hold for @world must not matter
	if r.Chance(1, 3) {
		c.Balances["world"] = map[string]*big.Int{}
		for _, as := range cfg.Assets {
			c.Balances["world"][as] = new(big.Int).Neg(SmallOrBig(r, 20))
		}
	}
	return c
}

// CopyExpr deep-copies an expression (tree nodes are identified by address, so a node must
// never occur at two places).
func CopyExpr(e Expr) Expr {
	switch e := e.(type) {
	case *Var:
		c := *e
		return &c
	case *Asset:
		c := *e
		return &c
	case *Account:
		c := *e
		return &c
	case *Str:
		c := *e
		return &c
	case *Num:
		c := *e
		return &c
	case *Ratio:
		c := *e
		return &c
	case *Percent:
		c := *e
		return &c
	case *Mon:
		return &Mon{Asset: CopyExpr(e.Asset), Amount: CopyExpr(e.Amount)}
	case *Infix:
		return &Infix{Op: e.Op, L: CopyExpr(e.L), R: CopyExpr(e.R)}
	}
	return e
}

func minInt(a, b int) int {
	if a < b {
		return a
	}
	return b
}
