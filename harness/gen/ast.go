// Package gen holds the harness's own script tree, the printer that turns it into text (with
// recorded spans), and the generators.
package gen

// ---- value expressions ----

type Expr interface{ isExpr() }

type (
	Var     struct{ Name string } // without '$'
	Asset   struct{ Name string } // e.g. USD, EUR/2
	Account struct{ Name string } // without '@'
	Str     struct{ S string }    // raw inner text (no quotes)
	Num     struct{ Text string } // [-]digits exactly as written
	Ratio   struct{ Text string } // "1/2", "1 / 2", "01/02"
	Percent struct{ Text string } // "12.5%"
	Mon     struct{ Asset, Amount Expr }
	Infix   struct {
		Op   byte // '+' or '-'
		L, R Expr
	}
)

func (*Var) isExpr()     {}
func (*Asset) isExpr()   {}
func (*Account) isExpr() {}
func (*Str) isExpr()     {}
func (*Num) isExpr()     {}
func (*Ratio) isExpr()   {}
func (*Percent) isExpr() {}
func (*Mon) isExpr()     {}
func (*Infix) isExpr()   {}

// ---- allotment heads ----

type Allot interface{ isAllot() }

type (
	AllotLit       struct{ Lit Expr } // *Ratio or *Percent
	AllotVar       struct{ V *Var }
	AllotRemaining struct{ _ byte } // non-zero size: nodes are identified by address
)

func (*AllotLit) isAllot()       {}
func (*AllotVar) isAllot()       {}
func (*AllotRemaining) isAllot() {}

// ---- sources ----

type Source interface{ isSource() }

type (
	SrcAccount   struct{ E Expr }
	SrcOverdraft struct {
		Addr    Expr
		Bounded Expr // nil = unbounded
	}
	SrcInorder struct{ Srcs []Source }
	SrcAllot   struct{ Items []*SrcAllotItem }
	SrcCapped  struct {
		Cap  Expr
		From Source
	}
	SrcAllotItem struct {
		A    Allot
		From Source
	}
)

func (*SrcAccount) isSource()   {}
func (*SrcOverdraft) isSource() {}
func (*SrcInorder) isSource()   {}
func (*SrcAllot) isSource()     {}
func (*SrcCapped) isSource()    {}

// ---- destinations ----

type Dest interface{ isDest() }

// KOD is "kept" or "to <destination>".
type KOD struct {
	Kept bool
	To   Dest
}

type (
	DstAccount struct{ E Expr }
	DstInorder struct {
		Clauses   []*DstClause
		Remaining *KOD
	}
	DstAllot  struct{ Items []*DstAllotItem }
	DstClause struct {
		Cap Expr
		To  *KOD
	}
	DstAllotItem struct {
		A  Allot
		To *KOD
	}
)

func (*DstAccount) isDest() {}
func (*DstInorder) isDest() {}
func (*DstAllot) isDest()   {}

// ---- statements ----

type Stmt interface{ isStmt() }

// SentValue is either a monetary expression (All=false, E = the monetary-typed expression) or
// "[ASSET *]" (All=true, E = the asset expression).
type SentValue struct {
	All bool
	E   Expr
}

type (
	Send struct {
		Sent *SentValue
		Src  Source
		Dst  Dest
	}
	Save struct {
		Sent *SentValue
		From Expr
	}
	Call struct {
		Name string
		Args []Expr
	}
)

func (*Send) isStmt() {}
func (*Save) isStmt() {}
func (*Call) isStmt() {}

type VarDecl struct {
	Type   string
	Name   string
	Origin *Call
}

type Script struct {
	VarsBlock bool // print "vars { ... }" even when empty
	Vars      []*VarDecl
	Stmts     []Stmt
}

// Helpers for building trees by hand (regression corpus).

func V(n string) *Var     { return &Var{Name: n} }
func A(n string) *Account { return &Account{Name: n} }
func As(n string) *Asset  { return &Asset{Name: n} }
func N(t string) *Num     { return &Num{Text: t} }
func S(s string) *Str     { return &Str{S: s} }
func M(asset, amt string) *Mon {
	return &Mon{Asset: &Asset{Name: asset}, Amount: &Num{Text: amt}}
}
func To(d Dest) *KOD   { return &KOD{To: d} }
func Kept() *KOD       { return &KOD{Kept: true} }
func DA(n string) Dest { return &DstAccount{E: A(n)} }
func SA(n string) Source {
	return &SrcAccount{E: A(n)}
}
