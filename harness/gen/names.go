package gen

// NameUse is one occurrence of a variable in an expression position.
type NameUse struct {
	Name   string
	Span   Span
	Origin int    // index of the declaration whose origin contains the use, −1 = statement
	Where  string // construct containing the use
	Node   *Var
}

// NameDecl is one declaration.
type NameDecl struct {
	Name string
	Type string
	Span Span
}

// CollectNames lists declarations and uses with the spans recorded by the printer.
func CollectNames(sc *Script, p *Printed) (decls []NameDecl, uses []NameUse) {
	for _, d := range sc.Vars {
		sp, _ := p.SpanOf(d, "name")
		decls = append(decls, NameDecl{d.Name, d.Type, sp})
	}
	var expr func(e Expr, origin int, where string)
	expr = func(e Expr, origin int, where string) {
		switch e := e.(type) {
		case *Var:
			sp, _ := p.SpanOf(e, "")
			uses = append(uses, NameUse{e.Name, sp, origin, where, e})
		case *Mon:
			expr(e.Asset, origin, where+">monetary.asset")
			expr(e.Amount, origin, where+">monetary.amount")
		case *Infix:
			expr(e.L, origin, where+">infix.left")
			expr(e.R, origin, where+">infix.right")
		}
	}
	allot := func(a Allot, where string) {
		if v, ok := a.(*AllotVar); ok {
			expr(v.V, -1, where+">portion")
		}
	}
	var src func(s Source, where string)
	src = func(s Source, where string) {
		switch s := s.(type) {
		case *SrcAccount:
			expr(s.E, -1, where+">account")
		case *SrcOverdraft:
			expr(s.Addr, -1, where+">overdraft.address")
			if s.Bounded != nil {
				expr(s.Bounded, -1, where+">overdraft.bound")
			}
		case *SrcInorder:
			for _, x := range s.Srcs {
				src(x, where+">inorder")
			}
		case *SrcAllot:
			for _, it := range s.Items {
				allot(it.A, where+">allot")
				src(it.From, where+">allot")
			}
		case *SrcCapped:
			expr(s.Cap, -1, where+">cap")
			src(s.From, where+">capped")
		}
	}
	var dst func(d Dest, where string)
	kod := func(k *KOD, where string) {
		if k != nil && !k.Kept {
			dst(k.To, where)
		}
	}
	dst = func(d Dest, where string) {
		switch d := d.(type) {
		case *DstAccount:
			expr(d.E, -1, where+">account")
		case *DstInorder:
			for _, cl := range d.Clauses {
				expr(cl.Cap, -1, where+">inorder.cap")
				kod(cl.To, where+">inorder")
			}
			kod(d.Remaining, where+">inorder.remaining")
		case *DstAllot:
			for _, it := range d.Items {
				allot(it.A, where+">allot")
				kod(it.To, where+">allot")
			}
		}
	}
	for i, d := range sc.Vars {
		if d.Origin != nil {
			for _, a := range d.Origin.Args {
				expr(a, i, "origin")
			}
		}
	}
	for _, st := range sc.Stmts {
		switch st := st.(type) {
		case *Send:
			expr(st.Sent.E, -1, "send.sent")
			src(st.Src, "send.source")
			dst(st.Dst, "send.destination")
		case *Save:
			expr(st.Sent.E, -1, "save.sent")
			expr(st.From, -1, "save.from")
		case *Call:
			for _, a := range st.Args {
				expr(a, -1, "call.arg")
			}
		}
	}
	return
}
