package gen

import "strings"

// ShapeKey abstracts a script into its constructor skeleton (for distinctness keys).
func ShapeKey(sc *Script) string {
	var b strings.Builder
	var src func(s Source)
	src = func(s Source) {
		switch s := s.(type) {
		case *SrcAccount:
			b.WriteString("a")
		case *SrcOverdraft:
			if s.Bounded == nil {
				b.WriteString("u")
			} else {
				b.WriteString("o")
			}
		case *SrcInorder:
			b.WriteString("{")
			for _, c := range s.Srcs {
				src(c)
			}
			b.WriteString("}")
		case *SrcAllot:
			b.WriteString("<")
			for _, it := range s.Items {
				if _, ok := it.A.(*AllotRemaining); ok {
					b.WriteString("r")
				}
				src(it.From)
			}
			b.WriteString(">")
		case *SrcCapped:
			b.WriteString("m(")
			src(s.From)
			b.WriteString(")")
		}
	}
	var dst func(d Dest)
	kod := func(k *KOD) {
		if k.Kept {
			b.WriteString("k")
		} else {
			dst(k.To)
		}
	}
	dst = func(d Dest) {
		switch d := d.(type) {
		case *DstAccount:
			b.WriteString("a")
		case *DstInorder:
			b.WriteString("{")
			for _, c := range d.Clauses {
				b.WriteString("m")
				kod(c.To)
			}
			b.WriteString("r")
			kod(d.Remaining)
			b.WriteString("}")
		case *DstAllot:
			b.WriteString("<")
			for _, it := range d.Items {
				kod(it.To)
			}
			b.WriteString(">")
		}
	}
	for _, st := range sc.Stmts {
		switch st := st.(type) {
		case *Send:
			if st.Sent.All {
				b.WriteString("S*[")
			} else {
				b.WriteString("S[")
			}
			src(st.Src)
			b.WriteString("|")
			dst(st.Dst)
			b.WriteString("]")
		case *Save:
			if st.Sent.All {
				b.WriteString("V*")
			} else {
				b.WriteString("V")
			}
		case *Call:
			b.WriteString("C")
		}
	}
	return b.String()
}

// WalkExprs calls f on every expression position of the script (origin arguments, sent values,
// accounts, caps, bounds, portion variables, call arguments); f recurses itself if it wants to.
func WalkExprs(sc *Script, f func(e Expr)) {
	var src func(s Source)
	allot := func(a Allot) {
		if v, ok := a.(*AllotVar); ok {
			f(v.V)
		}
	}
	src = func(s Source) {
		switch s := s.(type) {
		case *SrcAccount:
			f(s.E)
		case *SrcOverdraft:
			f(s.Addr)
			if s.Bounded != nil {
				f(s.Bounded)
			}
		case *SrcInorder:
			for _, x := range s.Srcs {
				src(x)
			}
		case *SrcAllot:
			for _, it := range s.Items {
				allot(it.A)
				src(it.From)
			}
		case *SrcCapped:
			f(s.Cap)
			src(s.From)
		}
	}
	var dst func(d Dest)
	kod := func(k *KOD) {
		if k != nil && !k.Kept {
			dst(k.To)
		}
	}
	dst = func(d Dest) {
		switch d := d.(type) {
		case *DstAccount:
			f(d.E)
		case *DstInorder:
			for _, cl := range d.Clauses {
				f(cl.Cap)
				kod(cl.To)
			}
			kod(d.Remaining)
		case *DstAllot:
			for _, it := range d.Items {
				allot(it.A)
				kod(it.To)
			}
		}
	}
	for _, d := range sc.Vars {
		if d.Origin != nil {
			for _, a := range d.Origin.Args {
				f(a)
			}
		}
	}
	for _, st := range sc.Stmts {
		switch st := st.(type) {
		case *Send:
			f(st.Sent.E)
			src(st.Src)
			dst(st.Dst)
		case *Save:
			f(st.Sent.E)
			f(st.From)
		case *Call:
			for _, a := range st.Args {
				f(a)
			}
		}
	}
}
