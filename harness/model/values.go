// Package model is the reference semantics the monitors compare real executions with. It is
// written from the property statements (DESIGN §4.3), works on the harness's own tree
// (package gen) and uses arbitrary-precision arithmetic with hand-written decimal parsing.
package model

import (
	"fmt"
	"math/big"
	"strings"

	"github.com/formancehq/numscript/verifharness/gen"
)

// Value kinds.
type (
	VAccount  string
	VAsset    string
	VString   string
	VNumber   struct{ N *big.Int }
	VPortion  struct{ R *big.Rat }
	VMonetary struct {
		Asset string
		Amt   *big.Int
	}
)

type Value interface{}

func TypeOf(v Value) string {
	switch v.(type) {
	case VAccount:
		return "account"
	case VAsset:
		return "asset"
	case VString:
		return "string"
	case VNumber:
		return "number"
	case VPortion:
		return "portion"
	case VMonetary:
		return "monetary"
	}
	return "?"
}

// Text is the textual form a value takes in account metadata (and the form a variable of that
// type is given in).
func Text(v Value) string {
	switch v := v.(type) {
	case VAccount:
		return string(v)
	case VAsset:
		return string(v)
	case VString:
		return string(v)
	case VNumber:
		return v.N.String()
	case VPortion:
		return v.R.String()
	case VMonetary:
		return v.Asset + " " + v.Amt.String()
	}
	return "?"
}

func ValueEqual(a, b Value) bool {
	if TypeOf(a) != TypeOf(b) {
		return false
	}
	switch x := a.(type) {
	case VNumber:
		return x.N.Cmp(b.(VNumber).N) == 0
	case VPortion:
		return x.R.Cmp(b.(VPortion).R) == 0
	case VMonetary:
		y := b.(VMonetary)
		return x.Asset == y.Asset && x.Amt.Cmp(y.Amt) == 0
	default:
		return a == b
	}
}

// Fail is a failed execution with its class.
type Fail struct {
	Kind string
	Msg  string
}

func (f *Fail) Error() string { return f.Kind + ": " + f.Msg }

func fail(kind, format string, a ...any) *Fail {
	return &Fail{Kind: kind, Msg: fmt.Sprintf(format, a...)}
}

// Error classes (shared vocabulary between the model and the classifier of real errors).
const (
	EMissingFunds    = "missing_funds"
	ENegativeAmount  = "negative_amount"
	EUnboundedAll    = "unbounded_in_send_all"
	EAllotmentAll    = "allotment_in_send_all"
	EAllotmentSum    = "allotment_sum"
	EMismatchedAsset = "mismatched_asset"
	EType            = "type_error"
	EUnboundVar      = "unbound_variable"
	EUnboundFn       = "unbound_function"
	EArity           = "bad_arity"
	EMissingVar      = "missing_variable"
	EMetaNotFound    = "metadata_not_found"
	EInvalidType     = "invalid_type"
	EBadPortion      = "bad_portion"
	EBadNumber       = "bad_number"
	EBadMonetary     = "bad_monetary"
	ENegativeBalance = "negative_balance"
	EExperimental    = "experimental_feature"
	EBadAccount      = "bad_account_name"
	EStoreBalances   = "store_balances"
	EStoreMeta       = "store_metadata"
)

// ---- decimal parsing by hand ----

func allDigits(s string) bool {
	if s == "" {
		return false
	}
	for i := 0; i < len(s); i++ {
		if s[i] < '0' || s[i] > '9' {
			return false
		}
	}
	return true
}

// ParseDec reads [-]digits in base ten.
func ParseDec(s string) (*big.Int, bool) {
	neg := false
	t := s
	if strings.HasPrefix(t, "-") {
		neg = true
		t = t[1:]
	}
	if !allDigits(t) {
		return nil, false
	}
	z := new(big.Int)
	ten := big.NewInt(10)
	for i := 0; i < len(t); i++ {
		z.Mul(z, ten)
		z.Add(z, big.NewInt(int64(t[i]-'0')))
	}
	if neg {
		z.Neg(z)
	}
	return z, true
}

// ParseRatioText reads "n/d", "n /d", "n/ d", "n / d" (at most one blank on each side) in base
// ten. ok=false: not of that shape. den may be zero (the caller decides).
func ParseRatioText(s string) (num, den *big.Int, ok bool) {
	i := strings.IndexByte(s, '/')
	if i < 0 {
		return nil, nil, false
	}
	l, r := s[:i], s[i+1:]
	l = strings.TrimSuffix(l, " ")
	r = strings.TrimPrefix(r, " ")
	if !allDigits(l) || !allDigits(r) {
		return nil, nil, false
	}
	n, _ := ParseDec(l)
	d, _ := ParseDec(r)
	return n, d, true
}

// ParsePercentText reads "p%" or "p.q%" in base ten as the exact rational (p.q)/100.
func ParsePercentText(s string) (*big.Rat, bool) {
	if !strings.HasSuffix(s, "%") {
		return nil, false
	}
	body := s[:len(s)-1]
	ip, fp := body, ""
	if i := strings.IndexByte(body, '.'); i >= 0 {
		ip, fp = body[:i], body[i+1:]
		if !allDigits(fp) {
			return nil, false
		}
	}
	if !allDigits(ip) {
		return nil, false
	}
	n, _ := ParseDec(ip + fp)
	den := new(big.Int).Exp(big.NewInt(10), big.NewInt(int64(2+len(fp))), nil)
	return new(big.Rat).SetFrac(n, den), true
}

// PortionOfText gives the base-ten meaning of a portion text (literal or variable form).
// kind: "" ok, "shape" not a portion text, "zero_den" n/0, "range" outside [0,1].
func PortionOfText(s string) (*big.Rat, string) {
	if r, ok := ParsePercentText(s); ok {
		if r.Sign() < 0 || r.Cmp(big.NewRat(1, 1)) > 0 {
			return r, "range"
		}
		return r, ""
	}
	if n, d, ok := ParseRatioText(s); ok {
		if d.Sign() == 0 {
			return nil, "zero_den"
		}
		r := new(big.Rat).SetFrac(n, d)
		if r.Cmp(big.NewRat(1, 1)) > 0 {
			return r, "range"
		}
		return r, ""
	}
	return nil, "shape"
}

// ValidAccountName follows the ACCOUNT token of the grammar (without '@').
func ValidAccountName(s string) bool {
	if s == "" {
		return false
	}
	seg := 0
	for i := 0; i < len(s); i++ {
		c := s[i]
		switch {
		case c >= 'a' && c <= 'z', c >= 'A' && c <= 'Z', c >= '0' && c <= '9', c == '_', c == '-':
			seg++
		case c == ':':
			if seg == 0 {
				return false
			}
			seg = 0
		default:
			return false
		}
	}
	return seg > 0
}

// ParseVarText reads the text given for a variable of a declared type.
func ParseVarText(typ, raw string) (Value, *Fail) {
	switch typ {
	case "monetary":
		parts := strings.Split(raw, " ")
		if len(parts) != 2 {
			return nil, fail(EBadMonetary, "%q", raw)
		}
		n, ok := ParseDec(parts[1])
		if !ok {
			return nil, fail(EBadNumber, "%q", parts[1])
		}
		return VMonetary{Asset: parts[0], Amt: n}, nil
	case "account":
		return VAccount(raw), nil
	case "asset":
		return VAsset(raw), nil
	case "string":
		return VString(raw), nil
	case "number":
		n, ok := ParseDec(raw)
		if !ok {
			return nil, fail(EBadNumber, "%q", raw)
		}
		return VNumber{n}, nil
	case "portion":
		r, k := PortionOfText(raw)
		if k != "" {
			return nil, fail(EBadPortion, "%q (%s)", raw, k)
		}
		return VPortion{r}, nil
	}
	return nil, fail(EInvalidType, "%q", typ)
}

// ---- expression evaluation ----

type Env struct {
	Vars map[string]Value
}

func (e *Env) Eval(x gen.Expr) (Value, *Fail) {
	switch x := x.(type) {
	case *gen.Var:
		v, ok := e.Vars[x.Name]
		if !ok {
			return nil, fail(EUnboundVar, "$%s", x.Name)
		}
		return v, nil
	case *gen.Asset:
		return VAsset(x.Name), nil
	case *gen.Account:
		return VAccount(x.Name), nil
	case *gen.Str:
		return VString(x.S), nil
	case *gen.Num:
		n, ok := ParseDec(x.Text)
		if !ok {
			return nil, fail(EBadNumber, "%q", x.Text)
		}
		return VNumber{n}, nil
	case *gen.Ratio:
		n, d, ok := ParseRatioText(x.Text)
		if !ok {
			return nil, fail(EBadPortion, "%q", x.Text)
		}
		if d.Sign() == 0 {
			return nil, fail(EBadPortion, "%q: zero denominator", x.Text)
		}
		return VPortion{new(big.Rat).SetFrac(n, d)}, nil
	case *gen.Percent:
		r, ok := ParsePercentText(x.Text)
		if !ok {
			return nil, fail(EBadPortion, "%q", x.Text)
		}
		return VPortion{r}, nil
	case *gen.Mon:
		a, f := e.Eval(x.Asset)
		if f != nil {
			return nil, f
		}
		as, ok := a.(VAsset)
		if !ok {
			return nil, fail(EType, "asset expected, got %s", TypeOf(a))
		}
		n, f := e.Eval(x.Amount)
		if f != nil {
			return nil, f
		}
		nn, ok := n.(VNumber)
		if !ok {
			return nil, fail(EType, "number expected, got %s", TypeOf(n))
		}
		return VMonetary{Asset: string(as), Amt: nn.N}, nil
	case *gen.Infix:
		l, f := e.Eval(x.L)
		if f != nil {
			return nil, f
		}
		switch lv := l.(type) {
		case VNumber:
			r, f := e.Eval(x.R)
			if f != nil {
				return nil, f
			}
			rv, ok := r.(VNumber)
			if !ok {
				return nil, fail(EType, "number expected, got %s", TypeOf(r))
			}
			if x.Op == '+' {
				return VNumber{new(big.Int).Add(lv.N, rv.N)}, nil
			}
			return VNumber{new(big.Int).Sub(lv.N, rv.N)}, nil
		case VMonetary:
			r, f := e.Eval(x.R)
			if f != nil {
				return nil, f
			}
			rv, ok := r.(VMonetary)
			if !ok {
				return nil, fail(EType, "monetary expected, got %s", TypeOf(r))
			}
			if rv.Asset != lv.Asset {
				return nil, fail(EMismatchedAsset, "%s vs %s", lv.Asset, rv.Asset)
			}
			if x.Op == '+' {
				return VMonetary{lv.Asset, new(big.Int).Add(lv.Amt, rv.Amt)}, nil
			}
			return VMonetary{lv.Asset, new(big.Int).Sub(lv.Amt, rv.Amt)}, nil
		default:
			return nil, fail(EType, "number or monetary expected, got %s", TypeOf(l))
		}
	}
	return nil, fail(EType, "unknown expression")
}

func (e *Env) account(x gen.Expr) (string, *Fail) {
	v, f := e.Eval(x)
	if f != nil {
		return "", f
	}
	a, ok := v.(VAccount)
	if !ok {
		return "", fail(EType, "account expected, got %s", TypeOf(v))
	}
	return string(a), nil
}

func (e *Env) asset(x gen.Expr) (string, *Fail) {
	v, f := e.Eval(x)
	if f != nil {
		return "", f
	}
	a, ok := v.(VAsset)
	if !ok {
		return "", fail(EType, "asset expected, got %s", TypeOf(v))
	}
	return string(a), nil
}

func (e *Env) monetary(x gen.Expr) (VMonetary, *Fail) {
	v, f := e.Eval(x)
	if f != nil {
		return VMonetary{}, f
	}
	m, ok := v.(VMonetary)
	if !ok {
		return VMonetary{}, fail(EType, "monetary expected, got %s", TypeOf(v))
	}
	return m, nil
}

func (e *Env) monetaryOf(x gen.Expr, asset string) (*big.Int, *Fail) {
	m, f := e.monetary(x)
	if f != nil {
		return nil, f
	}
	if m.Asset != asset {
		return nil, fail(EMismatchedAsset, "%s vs %s", asset, m.Asset)
	}
	return m.Amt, nil
}

func (e *Env) portion(x gen.Expr) (*big.Rat, *Fail) {
	v, f := e.Eval(x)
	if f != nil {
		return nil, f
	}
	p, ok := v.(VPortion)
	if !ok {
		return nil, fail(EType, "portion expected, got %s", TypeOf(v))
	}
	return p.R, nil
}

func (e *Env) str(x gen.Expr) (string, *Fail) {
	v, f := e.Eval(x)
	if f != nil {
		return "", f
	}
	s, ok := v.(VString)
	if !ok {
		return "", fail(EType, "string expected, got %s", TypeOf(v))
	}
	return string(s), nil
}
