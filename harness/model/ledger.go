package model

import (
	"math/big"
	"sort"

	"github.com/formancehq/numscript/verifharness/gen"
)

const Kept = "\x00kept"

// Leg is one entry of a draw list (account gives amount) or of a distribution list
// (destination — or Kept — receives amount).
type Leg struct {
	Name string
	Amt  *big.Int
}

type Pair struct{ Src, Dst string }

// StmtResult is what the model says about one statement.
type StmtResult struct {
	Kind  string // send | sendall | save | call
	Asset string
	Sent  *big.Int // amount drawn from the sources
	Kept  *big.Int // part of Sent routed to kept
	Draws []Leg
	Dists []Leg
	Flows map[Pair]*big.Int
	// Binding: for each account leaf visited, which constraint was the binding minimum
	// ("need", "funds", "zero", "unbounded"); for each cap visited "cap" when it bound.
	Binding []string
	// DstBinding: for each in-order clause "sat" (cap reached), "part" (got the rest), "none".
	DstBinding []string
}

type Input struct {
	Vars     map[string]string
	Balances map[string]map[string]*big.Int
	Meta     map[string]map[string]string
	Flags    map[string]bool
}

type Result struct {
	Fail       *Fail // nil = success
	FailedStmt int   // index of the failing statement, -1 = variable phase
	Stmts      []StmtResult
	TxMeta     map[string]Value
	AcctMeta   map[string]map[string]string
	// Needed: (account, asset) pairs whose balance influences the result (C10).
	Needed map[Pair]bool
	// Undetermined is set when the script enters a region the properties do not determine
	// (negative shares etc.); exact comparison must be skipped.
	Undetermined string
	// Final visible balances.
	V map[Pair]*big.Int
	// Env is the variable environment after the declaration phase.
	Env *Env
}

type machine struct {
	env   *Env
	in    *Input
	V     map[Pair]*big.Int // visible balance per (account, asset)
	res   *Result
	asset string
	// per statement
	pulled map[string]*big.Int
	cur    *StmtResult
}

func zero() *big.Int { return new(big.Int) }

func (m *machine) bal(acct, asset string) *big.Int {
	k := Pair{acct, asset}
	if v, ok := m.V[k]; ok {
		return v
	}
	v := zero()
	if a, ok := m.in.Balances[acct]; ok {
		if b, ok := a[asset]; ok && b != nil {
			v.Set(b)
		}
	}
	m.V[k] = v
	return v
}

func minB(a, b *big.Int) *big.Int {
	if a.Cmp(b) < 0 {
		return new(big.Int).Set(a)
	}
	return new(big.Int).Set(b)
}

func clamp0(a *big.Int) *big.Int {
	if a.Sign() < 0 {
		return zero()
	}
	return new(big.Int).Set(a)
}

// Allot splits total by the given portions: floor shares, then one extra unit to the earliest
// clauses until the total is reached.
func Allot(total *big.Int, ps []*big.Rat) []*big.Int {
	parts := make([]*big.Int, len(ps))
	sum := zero()
	for i, p := range ps {
		prod := new(big.Rat).Mul(p, new(big.Rat).SetInt(total))
		// floor (toward -inf)
		q := new(big.Int)
		mod := new(big.Int)
		q.DivMod(prod.Num(), prod.Denom(), mod)
		parts[i] = q
		sum.Add(sum, q)
	}
	left := new(big.Int).Sub(total, sum)
	one := big.NewInt(1)
	for i := range parts {
		if left.Sign() <= 0 {
			break
		}
		parts[i].Add(parts[i], one)
		left.Sub(left, one)
	}
	return parts
}

// portions resolves an allotment head list to rationals. und != "" flags a region the
// properties leave open.
func (m *machine) portions(heads []gen.Allot) (ps []*big.Rat, und string, f *Fail) {
	sum := new(big.Rat)
	rem := -1
	nrem := 0
	for i, h := range heads {
		switch h := h.(type) {
		case *gen.AllotLit:
			v, f := m.env.portion(h.Lit)
			if f != nil {
				return nil, "", f
			}
			ps = append(ps, v)
			sum.Add(sum, v)
		case *gen.AllotVar:
			v, f := m.env.portion(h.V)
			if f != nil {
				return nil, "", f
			}
			ps = append(ps, v)
			sum.Add(sum, v)
		case *gen.AllotRemaining:
			rem = i
			nrem++
			ps = append(ps, new(big.Rat))
		}
	}
	one := big.NewRat(1, 1)
	if nrem > 1 {
		und = "several remaining clauses"
	}
	if rem >= 0 {
		if sum.Cmp(one) > 0 {
			// `remaining` stands for one minus the others, which must therefore not exceed one
			return nil, "", fail(EAllotmentSum, "sum of the portions next to remaining is %s", sum.String())
		}
		ps[rem] = new(big.Rat).Sub(one, sum)
	} else if sum.Cmp(one) != 0 {
		return nil, "", fail(EAllotmentSum, "sum is %s", sum.String())
	}
	return ps, und, nil
}

func (m *machine) note(b string) { m.cur.Binding = append(m.cur.Binding, b) }

func (m *machine) give(acct string, amt *big.Int) {
	p, ok := m.pulled[acct]
	if !ok {
		p = zero()
		m.pulled[acct] = p
	}
	p.Add(p, amt)
	if amt.Sign() > 0 {
		m.cur.Draws = append(m.cur.Draws, Leg{acct, new(big.Int).Set(amt)})
	}
}

// avail = max(0, visible − already pulled in this statement + overdraft)
func (m *machine) avail(acct string, od *big.Int) *big.Int {
	a := new(big.Int).Set(m.bal(acct, m.asset))
	if p, ok := m.pulled[acct]; ok {
		a.Sub(a, p)
	}
	a.Add(a, od)
	return clamp0(a)
}

func (m *machine) need(acct string) {
	if acct != "world" {
		m.res.Needed[Pair{acct, m.asset}] = true
	}
}

// leaf draws from one account. od == nil: unbounded.
func (m *machine) leaf(acct string, od *big.Int, need *big.Int) *big.Int {
	if acct == "world" {
		od = nil
	}
	if od == nil {
		m.give(acct, need)
		m.note("unbounded")
		return new(big.Int).Set(need)
	}
	av := m.avail(acct, od)
	g := minB(av, need)
	switch {
	case g.Sign() == 0 && need.Sign() == 0:
		m.note("noneed")
	case g.Sign() == 0:
		m.note("zero")
	case g.Cmp(need) == 0 && av.Cmp(need) == 0:
		m.note("tight")
	case g.Cmp(need) == 0:
		m.note("need")
	default:
		m.note("funds")
	}
	m.give(acct, g)
	return g
}

func (m *machine) draw(s gen.Source, need *big.Int) (*big.Int, *Fail) {
	switch s := s.(type) {
	case *gen.SrcAccount:
		a, f := m.env.account(s.E)
		if f != nil {
			return nil, f
		}
		m.need(a)
		return m.leaf(a, zero(), need), nil
	case *gen.SrcOverdraft:
		var od *big.Int
		if s.Bounded != nil {
			b, f := m.env.monetaryOf(s.Bounded, m.asset)
			if f != nil {
				return nil, f
			}
			od = b
		}
		a, f := m.env.account(s.Addr)
		if f != nil {
			return nil, f
		}
		if od != nil {
			m.need(a)
		}
		return m.leaf(a, od, need), nil
	case *gen.SrcInorder:
		got := zero()
		for _, c := range s.Srcs {
			g, f := m.draw(c, new(big.Int).Sub(need, got))
			if f != nil {
				return nil, f
			}
			got.Add(got, g)
		}
		return got, nil
	case *gen.SrcCapped:
		c, f := m.env.monetaryOf(s.Cap, m.asset)
		if f != nil {
			return nil, f
		}
		c = clamp0(c)
		if c.Cmp(need) < 0 {
			m.note("cap")
			return m.draw(s.From, c)
		}
		m.note("nocap")
		return m.draw(s.From, new(big.Int).Set(need))
	case *gen.SrcAllot:
		heads := make([]gen.Allot, len(s.Items))
		for i, it := range s.Items {
			heads[i] = it.A
		}
		ps, und, f := m.portions(heads)
		if f != nil {
			return nil, f
		}
		if und != "" {
			m.res.Undetermined = und
		}
		parts := Allot(need, ps)
		for i, it := range s.Items {
			if parts[i].Sign() < 0 {
				m.res.Undetermined = "negative share"
				continue
			}
			g, f := m.draw(it.From, parts[i])
			if f != nil {
				return nil, f
			}
			if g.Cmp(parts[i]) != 0 {
				return nil, fail(EMissingFunds, "allotment branch %d gives %s of %s", i, g, parts[i])
			}
		}
		return new(big.Int).Set(need), nil
	}
	return nil, fail(EType, "unknown source")
}

func (m *machine) drawAll(s gen.Source) (*big.Int, *Fail) {
	switch s := s.(type) {
	case *gen.SrcAccount:
		a, f := m.env.account(s.E)
		if f != nil {
			return nil, f
		}
		if a == "world" {
			return nil, fail(EUnboundedAll, "@world")
		}
		m.need(a)
		g := m.avail(a, zero())
		if g.Sign() == 0 {
			m.note("zero")
		} else {
			m.note("drain")
		}
		m.give(a, g)
		return g, nil
	case *gen.SrcOverdraft:
		var od *big.Int
		if s.Bounded != nil {
			b, f := m.env.monetaryOf(s.Bounded, m.asset)
			if f != nil {
				return nil, f
			}
			od = b
		}
		a, f := m.env.account(s.Addr)
		if f != nil {
			return nil, f
		}
		if a == "world" || od == nil {
			return nil, fail(EUnboundedAll, "%s", a)
		}
		m.need(a)
		g := m.avail(a, od)
		if g.Sign() == 0 {
			m.note("zero")
		} else {
			m.note("drain-od")
		}
		m.give(a, g)
		return g, nil
	case *gen.SrcInorder:
		tot := zero()
		for _, c := range s.Srcs {
			g, f := m.drawAll(c)
			if f != nil {
				return nil, f
			}
			tot.Add(tot, g)
		}
		return tot, nil
	case *gen.SrcCapped:
		c, f := m.env.monetaryOf(s.Cap, m.asset)
		if f != nil {
			return nil, f
		}
		m.note("cap-all")
		return m.draw(s.From, clamp0(c))
	case *gen.SrcAllot:
		return nil, fail(EAllotmentAll, "allotment")
	}
	return nil, fail(EType, "unknown source")
}

func (m *machine) route(k *gen.KOD, g *big.Int) *Fail {
	if k.Kept {
		if g.Sign() > 0 {
			m.cur.Dists = append(m.cur.Dists, Leg{Kept, new(big.Int).Set(g)})
			m.cur.Kept.Add(m.cur.Kept, g)
		}
		return nil
	}
	return m.dist(k.To, g)
}

func (m *machine) dist(d gen.Dest, amt *big.Int) *Fail {
	switch d := d.(type) {
	case *gen.DstAccount:
		a, f := m.env.account(d.E)
		if f != nil {
			return f
		}
		if amt.Sign() > 0 {
			m.cur.Dists = append(m.cur.Dists, Leg{a, new(big.Int).Set(amt)})
		}
		return nil
	case *gen.DstInorder:
		left := new(big.Int).Set(amt)
		if len(d.Clauses) == 0 {
			// `{ remaining to X }` is, for the grammar, an allotment with a single remaining clause:
			// X is evaluated whatever the amount
			m.cur.DstBinding = append(m.cur.DstBinding, "rem-only")
			return m.route(d.Remaining, left)
		}
		for _, c := range d.Clauses {
			if left.Sign() == 0 {
				m.cur.DstBinding = append(m.cur.DstBinding, "none")
				continue
			}
			cp, f := m.env.monetaryOf(c.Cap, m.asset)
			if f != nil {
				return f
			}
			cp = clamp0(cp)
			g := minB(cp, left)
			if g.Sign() == 0 {
				m.cur.DstBinding = append(m.cur.DstBinding, "zerocap")
				continue
			}
			if g.Cmp(cp) == 0 {
				m.cur.DstBinding = append(m.cur.DstBinding, "sat")
			} else {
				m.cur.DstBinding = append(m.cur.DstBinding, "part")
			}
			if f := m.route(c.To, g); f != nil {
				return f
			}
			left.Sub(left, g)
		}
		if left.Sign() == 0 {
			m.cur.DstBinding = append(m.cur.DstBinding, "rem0")
			return nil
		}
		m.cur.DstBinding = append(m.cur.DstBinding, "rem+")
		return m.route(d.Remaining, left)
	case *gen.DstAllot:
		heads := make([]gen.Allot, len(d.Items))
		for i, it := range d.Items {
			heads[i] = it.A
		}
		ps, und, f := m.portions(heads)
		if f != nil {
			return f
		}
		if und != "" {
			m.res.Undetermined = und
		}
		parts := Allot(amt, ps)
		for i, it := range d.Items {
			if parts[i].Sign() < 0 {
				m.res.Undetermined = "negative share"
				continue
			}
			// a zero share is still distributed: the nested destination is evaluated (an allotment
			// in it is checked) although nothing arrives there
			if f := m.route(it.To, parts[i]); f != nil {
				return f
			}
		}
		return nil
	}
	return fail(EType, "unknown destination")
}

// PairFIFO matches a draw list with a distribution list first-come-first-served; Kept entries
// consume draw units and produce no flow.
func PairFIFO(draws, dists []Leg) map[Pair]*big.Int {
	flows := map[Pair]*big.Int{}
	ds := make([]Leg, len(draws))
	for i, d := range draws {
		ds[i] = Leg{d.Name, new(big.Int).Set(d.Amt)}
	}
	di := 0
	for _, r := range dists {
		amt := new(big.Int).Set(r.Amt)
		for amt.Sign() > 0 && di < len(ds) {
			take := minB(amt, ds[di].Amt)
			if r.Name != Kept && take.Sign() > 0 {
				k := Pair{ds[di].Name, r.Name}
				if _, ok := flows[k]; !ok {
					flows[k] = zero()
				}
				flows[k].Add(flows[k], take)
			}
			ds[di].Amt.Sub(ds[di].Amt, take)
			amt.Sub(amt, take)
			if ds[di].Amt.Sign() == 0 {
				di++
			}
		}
	}
	return flows
}

func (m *machine) send(s *gen.Send) (StmtResult, *Fail) {
	m.pulled = map[string]*big.Int{}
	sr := StmtResult{Kept: zero()}
	m.cur = &sr
	var total *big.Int
	if s.Sent.All {
		a, f := m.env.asset(s.Sent.E)
		if f != nil {
			return sr, f
		}
		sr.Kind, sr.Asset, m.asset = "sendall", a, a
		t, f := m.drawAll(s.Src)
		if f != nil {
			return sr, f
		}
		total = t
	} else {
		mon, f := m.env.monetary(s.Sent.E)
		if f != nil {
			return sr, f
		}
		sr.Kind, sr.Asset, m.asset = "send", mon.Asset, mon.Asset
		if mon.Amt.Sign() < 0 {
			return sr, fail(ENegativeAmount, "%s", mon.Amt)
		}
		g, f := m.draw(s.Src, mon.Amt)
		if f != nil {
			return sr, f
		}
		if g.Cmp(mon.Amt) != 0 {
			return sr, fail(EMissingFunds, "sources give %s of %s", g, mon.Amt)
		}
		total = new(big.Int).Set(mon.Amt)
	}
	sr.Sent = total
	if f := m.dist(s.Dst, total); f != nil {
		return sr, f
	}
	sr.Flows = PairFIFO(sr.Draws, sr.Dists)
	for k, v := range sr.Flows {
		sb := m.bal(k.Src, m.asset)
		sb.Sub(sb, v)
		db := m.bal(k.Dst, m.asset)
		db.Add(db, v)
	}
	return sr, nil
}

func (m *machine) save(s *gen.Save) (StmtResult, *Fail) {
	sr := StmtResult{Kind: "save", Kept: zero()}
	var asset string
	var amt *big.Int
	if s.Sent.All {
		a, f := m.env.asset(s.Sent.E)
		if f != nil {
			return sr, f
		}
		asset = a
	} else {
		mon, f := m.env.monetary(s.Sent.E)
		if f != nil {
			return sr, f
		}
		asset, amt = mon.Asset, mon.Amt
	}
	sr.Asset = asset
	acct, f := m.env.account(s.From)
	if f != nil {
		return sr, f
	}
	if acct != "world" {
		m.res.Needed[Pair{acct, asset}] = true
	}
	if amt != nil && amt.Sign() < 0 {
		return sr, fail(ENegativeAmount, "save %s", amt)
	}
	b := m.bal(acct, asset)
	if b.Sign() > 0 {
		if amt == nil {
			b.SetInt64(0)
		} else {
			b.Sub(b, amt)
			if b.Sign() < 0 {
				b.SetInt64(0)
			}
		}
	}
	return sr, nil
}

func (m *machine) call(c *gen.Call) *Fail {
	var args []Value
	for _, a := range c.Args {
		v, f := m.env.Eval(a)
		if f != nil {
			return f
		}
		args = append(args, v)
	}
	switch c.Name {
	case "set_tx_meta":
		if len(args) >= 1 {
			if _, ok := args[0].(VString); !ok {
				return fail(EType, "string expected")
			}
		}
		if len(args) != 2 {
			return fail(EArity, "set_tx_meta/%d", len(args))
		}
		m.res.TxMeta[string(args[0].(VString))] = args[1]
	case "set_account_meta":
		if len(args) >= 1 {
			if _, ok := args[0].(VAccount); !ok {
				return fail(EType, "account expected")
			}
		}
		if len(args) >= 2 {
			if _, ok := args[1].(VString); !ok {
				return fail(EType, "string expected")
			}
		}
		if len(args) != 3 {
			return fail(EArity, "set_account_meta/%d", len(args))
		}
		a := string(args[0].(VAccount))
		if m.res.AcctMeta[a] == nil {
			m.res.AcctMeta[a] = map[string]string{}
		}
		m.res.AcctMeta[a][string(args[1].(VString))] = Text(args[2])
	default:
		return fail(EUnboundFn, "%s", c.Name)
	}
	return nil
}

func (m *machine) origin(d *gen.VarDecl) (Value, *Fail) {
	c := d.Origin
	var args []Value
	for _, a := range c.Args {
		v, f := m.env.Eval(a)
		if f != nil {
			return nil, f
		}
		args = append(args, v)
	}
	switch c.Name {
	case "meta":
		if len(args) >= 1 {
			if _, ok := args[0].(VAccount); !ok {
				return nil, fail(EType, "account expected")
			}
		}
		if len(args) >= 2 {
			if _, ok := args[1].(VString); !ok {
				return nil, fail(EType, "string expected")
			}
		}
		if len(args) != 2 {
			return nil, fail(EArity, "meta/%d", len(args))
		}
		a, k := string(args[0].(VAccount)), string(args[1].(VString))
		raw, ok := m.in.Meta[a][k]
		if !ok {
			return nil, fail(EMetaNotFound, "@%s %q", a, k)
		}
		return ParseVarText(d.Type, raw)
	case "balance", "overdraft":
		if c.Name == "overdraft" && !m.in.Flags["experimental-overdraft-function"] {
			return nil, fail(EExperimental, "overdraft()")
		}
		if len(args) >= 1 {
			if _, ok := args[0].(VAccount); !ok {
				return nil, fail(EType, "account expected")
			}
		}
		if len(args) >= 2 {
			if _, ok := args[1].(VAsset); !ok {
				return nil, fail(EType, "asset expected")
			}
		}
		if len(args) != 2 {
			return nil, fail(EArity, "%s/%d", c.Name, len(args))
		}
		a, as := string(args[0].(VAccount)), string(args[1].(VAsset))
		if a != "world" {
			m.res.Needed[Pair{a, as}] = true
		}
		b := m.bal(a, as)
		if a == "world" {
			b = zero() // never requested (C10): whatever the store holds is not seen
		}
		if c.Name == "balance" {
			if b.Sign() < 0 {
				return nil, fail(ENegativeBalance, "@%s", a)
			}
			return VMonetary{as, new(big.Int).Set(b)}, nil
		}
		if b.Sign() > 0 {
			return VMonetary{as, zero()}, nil
		}
		return VMonetary{as, new(big.Int).Neg(b)}, nil
	}
	return nil, fail(EUnboundFn, "%s", c.Name)
}

// Run evaluates a whole script.
func Run(sc *gen.Script, in *Input) *Result {
	res := &Result{FailedStmt: -1, TxMeta: map[string]Value{}, AcctMeta: map[string]map[string]string{}, Needed: map[Pair]bool{}}
	m := &machine{env: &Env{Vars: map[string]Value{}}, in: in, V: map[Pair]*big.Int{}, res: res}
	res.V = m.V
	res.Env = m.env
	for _, d := range sc.Vars {
		if d.Origin == nil {
			raw, ok := in.Vars[d.Name]
			if !ok {
				res.Fail = fail(EMissingVar, "%s", d.Name)
				return res
			}
			v, f := ParseVarText(d.Type, raw)
			if f != nil {
				res.Fail = f
				return res
			}
			m.env.Vars[d.Name] = v
		} else {
			v, f := m.origin(d)
			if f != nil {
				res.Fail = f
				return res
			}
			m.env.Vars[d.Name] = v
		}
	}
	for i, st := range sc.Stmts {
		var sr StmtResult
		var f *Fail
		switch st := st.(type) {
		case *gen.Send:
			sr, f = m.send(st)
		case *gen.Save:
			sr, f = m.save(st)
		case *gen.Call:
			sr = StmtResult{Kind: "call", Kept: zero()}
			f = m.call(st)
		}
		if f != nil {
			res.Fail = f
			res.FailedStmt = i
			return res
		}
		res.Stmts = append(res.Stmts, sr)
	}
	return res
}

// SortedPairs lists the keys of a flow matrix deterministically.
func SortedPairs(f map[Pair]*big.Int) []Pair {
	ks := make([]Pair, 0, len(f))
	for k := range f {
		ks = append(ks, k)
	}
	sort.Slice(ks, func(i, j int) bool {
		if ks[i].Src != ks[j].Src {
			return ks[i].Src < ks[j].Src
		}
		return ks[i].Dst < ks[j].Dst
	})
	return ks
}

// Prefix returns the script restricted to its first k statements (same declarations).
func Prefix(sc *gen.Script, k int) *gen.Script {
	return &gen.Script{VarsBlock: sc.VarsBlock, Vars: sc.Vars, Stmts: sc.Stmts[:k]}
}

// Suffix returns the script restricted to statements k.. (same declarations).
func Suffix(sc *gen.Script, k int) *gen.Script {
	return &gen.Script{VarsBlock: sc.VarsBlock, Vars: sc.Vars, Stmts: sc.Stmts[k:]}
}

// MaxSupply says how much the source of statement i (a fixed-amount send) could give at most
// after statements 0..i-1 ran. unbounded: there is no limit. ok=false: not computable (an
// earlier statement fails, an allotment source, an evaluation error).
func MaxSupply(sc *gen.Script, in *Input, i int) (supply *big.Int, unbounded bool, ok bool) {
	res := &Result{FailedStmt: -1, TxMeta: map[string]Value{}, AcctMeta: map[string]map[string]string{}, Needed: map[Pair]bool{}}
	m := &machine{env: &Env{Vars: map[string]Value{}}, in: in, V: map[Pair]*big.Int{}, res: res}
	for _, d := range sc.Vars {
		if d.Origin == nil {
			raw, has := in.Vars[d.Name]
			if !has {
				return nil, false, false
			}
			v, f := ParseVarText(d.Type, raw)
			if f != nil {
				return nil, false, false
			}
			m.env.Vars[d.Name] = v
		} else {
			v, f := m.origin(d)
			if f != nil {
				return nil, false, false
			}
			m.env.Vars[d.Name] = v
		}
	}
	for j := 0; j < i; j++ {
		var f *Fail
		switch st := sc.Stmts[j].(type) {
		case *gen.Send:
			_, f = m.send(st)
		case *gen.Save:
			_, f = m.save(st)
		case *gen.Call:
			f = m.call(st)
		}
		if f != nil {
			return nil, false, false
		}
	}
	st, isSend := sc.Stmts[i].(*gen.Send)
	if !isSend || st.Sent.All {
		return nil, false, false
	}
	mon, f := m.env.monetary(st.Sent.E)
	if f != nil {
		return nil, false, false
	}
	if hasAllot(st.Src) {
		return nil, false, false
	}
	m.asset = mon.Asset
	m.pulled = map[string]*big.Int{}
	sr := StmtResult{Kept: zero()}
	m.cur = &sr
	huge := new(big.Int).Exp(big.NewInt(10), big.NewInt(80), nil)
	g, f := m.draw(st.Src, huge)
	if f != nil {
		return nil, false, false
	}
	if g.Cmp(huge) == 0 {
		return nil, true, true
	}
	return g, false, true
}

func hasAllot(s gen.Source) bool {
	switch s := s.(type) {
	case *gen.SrcAllot:
		return true
	case *gen.SrcInorder:
		for _, c := range s.Srcs {
			if hasAllot(c) {
				return true
			}
		}
	case *gen.SrcCapped:
		return hasAllot(s.From)
	}
	return false
}

// Grants describes, for a script under given variable values, which accounts are exempt from
// the overdraft bound (world, unbounded overdraft anywhere) and the largest bounded overdraft
// granted per (account, asset).
type Grants struct {
	Exempt map[string]bool
	Max    map[Pair]*big.Int
	// Accounts is every account name the script can name (literals and account-typed values).
	Accounts map[string]bool
}

// CollectGrants walks the script with the variable environment of a finished model run.
func CollectGrants(sc *gen.Script, env *Env) *Grants {
	g := &Grants{Exempt: map[string]bool{"world": true}, Max: map[Pair]*big.Int{}, Accounts: map[string]bool{}}
	for _, v := range env.Vars {
		if a, ok := v.(VAccount); ok {
			g.Accounts[string(a)] = true
		}
	}
	var walkE func(e gen.Expr)
	walkE = func(e gen.Expr) {
		switch e := e.(type) {
		case *gen.Account:
			g.Accounts[e.Name] = true
		case *gen.Mon:
			walkE(e.Asset)
			walkE(e.Amount)
		case *gen.Infix:
			walkE(e.L)
			walkE(e.R)
		}
	}
	var walkS func(s gen.Source)
	walkS = func(s gen.Source) {
		switch s := s.(type) {
		case *gen.SrcAccount:
			walkE(s.E)
		case *gen.SrcOverdraft:
			walkE(s.Addr)
			a, f := env.account(s.Addr)
			if f != nil {
				return
			}
			if s.Bounded == nil {
				g.Exempt[a] = true
				return
			}
			m, f := env.monetary(s.Bounded)
			if f != nil {
				return
			}
			k := Pair{a, m.Asset}
			if cur, ok := g.Max[k]; !ok || m.Amt.Cmp(cur) > 0 {
				g.Max[k] = clamp0(m.Amt)
			}
		case *gen.SrcInorder:
			for _, c := range s.Srcs {
				walkS(c)
			}
		case *gen.SrcAllot:
			for _, it := range s.Items {
				walkS(it.From)
			}
		case *gen.SrcCapped:
			walkS(s.From)
		}
	}
	var walkD func(d gen.Dest)
	walkK := func(k *gen.KOD) {
		if k != nil && !k.Kept {
			walkD(k.To)
		}
	}
	walkD = func(d gen.Dest) {
		switch d := d.(type) {
		case *gen.DstAccount:
			walkE(d.E)
		case *gen.DstInorder:
			for _, c := range d.Clauses {
				walkK(c.To)
			}
			walkK(d.Remaining)
		case *gen.DstAllot:
			for _, it := range d.Items {
				walkK(it.To)
			}
		}
	}
	for _, st := range sc.Stmts {
		switch st := st.(type) {
		case *gen.Send:
			walkS(st.Src)
			walkD(st.Dst)
		case *gen.Save:
			walkE(st.From)
		case *gen.Call:
			for _, a := range st.Args {
				walkE(a)
			}
		}
	}
	return g
}
