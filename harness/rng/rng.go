// Package rng is a tiny deterministic PRNG (splitmix64) keyed by strings, so that case i of
// stratum s under seed σ is a pure function of (σ, s, i) and nothing else.
package rng

import "math/big"

type R struct{ s uint64 }

func mix(z uint64) uint64 {
	z += 0x9e3779b97f4a7c15
	z = (z ^ (z >> 30)) * 0xbf58476d1ce4e5b9
	z = (z ^ (z >> 27)) * 0x94d049bb133111eb
	return z ^ (z >> 31)
}

// HashString is FNV-1a 64 followed by a mix.
func HashString(s string) uint64 {
	h := uint64(14695981039346656037)
	for i := 0; i < len(s); i++ {
		h ^= uint64(s[i])
		h *= 1099511628211
	}
	return mix(h)
}

// New derives a generator from a seed and a key.
func New(seed uint64, key string) *R {
	return &R{s: mix(seed) ^ HashString(key)}
}

func (r *R) U64() uint64 {
	r.s += 0x9e3779b97f4a7c15
	z := r.s
	z = (z ^ (z >> 30)) * 0xbf58476d1ce4e5b9
	z = (z ^ (z >> 27)) * 0x94d049bb133111eb
	return z ^ (z >> 31)
}

// Intn returns a value in [0,n). n must be > 0.
func (r *R) Intn(n int) int {
	if n <= 0 {
		panic("rng: Intn with n <= 0")
	}
	return int(r.U64() % uint64(n))
}

// Range returns a value in [lo,hi] inclusive.
func (r *R) Range(lo, hi int) int { return lo + r.Intn(hi-lo+1) }

// Chance is true with probability num/den.
func (r *R) Chance(num, den int) bool { return r.Intn(den) < num }

func (r *R) Bool() bool { return r.U64()&1 == 1 }

// Pick returns one of the strings.
func (r *R) Pick(xs ...string) string { return xs[r.Intn(len(xs))] }

func PickOf[T any](r *R, xs []T) T { return xs[r.Intn(len(xs))] }

// Weighted picks an index according to integer weights.
func (r *R) Weighted(ws ...int) int {
	t := 0
	for _, w := range ws {
		t += w
	}
	k := r.Intn(t)
	for i, w := range ws {
		if k < w {
			return i
		}
		k -= w
	}
	return len(ws) - 1
}

// Big returns a uniformly random big integer in [0, 2^bits).
func (r *R) Big(bits int) *big.Int {
	z := new(big.Int)
	for i := 0; i < (bits+63)/64; i++ {
		z.Lsh(z, 64)
		z.Or(z, new(big.Int).SetUint64(r.U64()))
	}
	return z.Rsh(z, uint(((bits+63)/64)*64-bits))
}

// Shuffle permutes n elements.
func (r *R) Shuffle(n int, swap func(i, j int)) {
	for i := n - 1; i > 0; i-- {
		j := r.Intn(i + 1)
		swap(i, j)
	}
}
