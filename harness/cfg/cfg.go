// Package cfg decides membership of a text in L(Numscript.g4) independently of the generated
// ANTLR parser: the text is tokenised with the repository's generated *lexer* (under our own
// error listener) and the token-kind sequence is recognised by a hand-written, memoised
// recursive-descent recogniser that computes, for each non-terminal and start index, the set
// of reachable end indices (complete for this grammar; the left recursion of valueExpr is
// rewritten as atom (op atom)*).
package cfg

import (
	"github.com/antlr4-go/antlr/v4"
	ap "github.com/formancehq/numscript/internal/parser/antlr"
)

const (
	PLUS        = ap.NumscriptLexerT__0
	VARS        = ap.NumscriptLexerVARS
	MAX         = ap.NumscriptLexerMAX
	SOURCE      = ap.NumscriptLexerSOURCE
	DESTINATION = ap.NumscriptLexerDESTINATION
	SEND        = ap.NumscriptLexerSEND
	FROM        = ap.NumscriptLexerFROM
	UP          = ap.NumscriptLexerUP
	TO          = ap.NumscriptLexerTO
	REMAINING   = ap.NumscriptLexerREMAINING
	ALLOWING    = ap.NumscriptLexerALLOWING
	UNBOUNDED   = ap.NumscriptLexerUNBOUNDED
	OVERDRAFT   = ap.NumscriptLexerOVERDRAFT
	KEPT        = ap.NumscriptLexerKEPT
	SAVE        = ap.NumscriptLexerSAVE
	LP          = ap.NumscriptLexerLPARENS
	RP          = ap.NumscriptLexerRPARENS
	LBK         = ap.NumscriptLexerLBRACKET
	RBK         = ap.NumscriptLexerRBRACKET
	LBR         = ap.NumscriptLexerLBRACE
	RBR         = ap.NumscriptLexerRBRACE
	COMMA       = ap.NumscriptLexerCOMMA
	EQ          = ap.NumscriptLexerEQ
	STAR        = ap.NumscriptLexerSTAR
	MINUS       = ap.NumscriptLexerMINUS
	RATIO       = ap.NumscriptLexerRATIO_PORTION_LITERAL
	PERC        = ap.NumscriptLexerPERCENTAGE_PORTION_LITERAL
	STRING      = ap.NumscriptLexerSTRING
	IDENT       = ap.NumscriptLexerIDENTIFIER
	NUMBER      = ap.NumscriptLexerNUMBER
	VARNAME     = ap.NumscriptLexerVARIABLE_NAME
	ACCOUNT     = ap.NumscriptLexerACCOUNT
	ASSET       = ap.NumscriptLexerASSET
)

type lexErr struct {
	antlr.DefaultErrorListener
	n int
}

func (e *lexErr) SyntaxError(antlr.Recognizer, interface{}, int, int, string, antlr.RecognitionException) {
	e.n++
}

// Lex tokenises with the generated lexer; ok=false when the lexer reported an error.
func Lex(in string) ([]int, bool) {
	lx := ap.NewNumscriptLexer(antlr.NewInputStream(in))
	lx.RemoveErrorListeners()
	le := &lexErr{}
	lx.AddErrorListener(le)
	var toks []int
	for {
		t := lx.NextToken()
		if t.GetTokenType() == antlr.TokenEOF {
			break
		}
		if t.GetChannel() == antlr.TokenDefaultChannel {
			toks = append(toks, t.GetTokenType())
		}
	}
	return toks, le.n == 0
}

// set of end positions as a bitset over positions 0..n (n<=~400) -> use map-free []uint64
type set []uint64

type R struct {
	t    []int
	n    int
	memo map[[2]int]set
}

func (r *R) empty() set      { return make(set, (r.n+64)/64) }
func (s set) add(i int)      { s[i/64] |= 1 << (uint(i) % 64) }
func (s set) has(i int) bool { return s[i/64]&(1<<(uint(i)%64)) != 0 }
func (s set) or(o set) {
	for i := range s {
		s[i] |= o[i]
	}
}
func (s set) any() bool {
	for _, w := range s {
		if w != 0 {
			return true
		}
	}
	return false
}
func (r *R) each(s set, f func(int)) {
	for i := 0; i <= r.n; i++ {
		if s.has(i) {
			f(i)
		}
	}
}
func (r *R) single(i int) set { s := r.empty(); s.add(i); return s }

const (
	ntValueExpr = iota
	ntAtom
	ntSource
	ntDestination
	ntKeptOrDest
	ntFnCall
	ntStatement
	ntVarDecl
	ntSentValue
	ntAllotment
)

func (r *R) tok(p int, ty int) bool { return p < r.n && r.t[p] == ty }

// seq helpers: apply f to each end in s, union results
func (r *R) then(s set, f func(int) set) set {
	out := r.empty()
	r.each(s, func(i int) { out.or(f(i)) })
	return out
}
func (r *R) thenTok(s set, ty int) set {
	out := r.empty()
	r.each(s, func(i int) {
		if r.tok(i, ty) {
			out.add(i + 1)
		}
	})
	return out
}
func (r *R) star(s set, f func(int) set) set { // closure: s ∪ f(s) ∪ ...
	out := r.empty()
	out.or(s)
	frontier := s
	for frontier.any() {
		nx := r.then(frontier, f)
		newOnes := r.empty()
		r.each(nx, func(i int) {
			if !out.has(i) {
				newOnes.add(i)
				out.add(i)
			}
		})
		frontier = newOnes
	}
	return out
}

func (r *R) parse(nt, p int) set {
	k := [2]int{nt, p}
	if v, ok := r.memo[k]; ok {
		return v
	}
	r.memo[k] = r.empty() // guard (no left recursion by construction)
	var out set
	switch nt {
	case ntAtom:
		out = r.empty()
		if p < r.n {
			switch r.t[p] {
			case VARNAME, ASSET, STRING, ACCOUNT, NUMBER, RATIO, PERC:
				out.add(p + 1)
			case LBK: // monetaryLit
				s := r.parse(ntValueExpr, p+1)
				s = r.then(s, func(i int) set { return r.parse(ntValueExpr, i) })
				out.or(r.thenTok(s, RBK))
			}
		}
	case ntValueExpr:
		s := r.parse(ntAtom, p)
		out = r.star(s, func(i int) set {
			if r.tok(i, PLUS) || r.tok(i, MINUS) {
				return r.parse(ntAtom, i+1)
			}
			return r.empty()
		})
	case ntAllotment:
		out = r.empty()
		if p < r.n && (r.t[p] == RATIO || r.t[p] == PERC || r.t[p] == VARNAME || r.t[p] == REMAINING) {
			out.add(p + 1)
		}
	case ntSource:
		out = r.empty()
		ve := r.parse(ntValueExpr, p)
		out.or(ve) // srcAccount
		al := r.thenTok(ve, ALLOWING)
		out.or(r.thenTok(r.thenTok(al, UNBOUNDED), OVERDRAFT))
		b := r.thenTok(r.thenTok(r.thenTok(al, OVERDRAFT), UP), TO)
		out.or(r.then(b, func(i int) set { return r.parse(ntValueExpr, i) }))
		if r.tok(p, LBR) {
			// srcAllotment: { (allotment FROM source)+ }
			clause := func(i int) set {
				a := r.parse(ntAllotment, i)
				a = r.thenTok(a, FROM)
				return r.then(a, func(j int) set { return r.parse(ntSource, j) })
			}
			one := clause(p + 1)
			many := r.star(one, clause)
			out.or(r.thenTok(many, RBR))
			// srcInorder: { source* }
			ss := r.star(r.single(p+1), func(i int) set { return r.parse(ntSource, i) })
			out.or(r.thenTok(ss, RBR))
		}
		if r.tok(p, MAX) {
			c := r.thenTok(r.parse(ntValueExpr, p+1), FROM)
			out.or(r.then(c, func(i int) set { return r.parse(ntSource, i) }))
		}
	case ntKeptOrDest:
		out = r.empty()
		if r.tok(p, KEPT) {
			out.add(p + 1)
		}
		if r.tok(p, TO) {
			out.or(r.parse(ntDestination, p+1))
		}
	case ntDestination:
		out = r.empty()
		out.or(r.parse(ntValueExpr, p))
		if r.tok(p, LBR) {
			clause := func(i int) set {
				a := r.parse(ntAllotment, i)
				return r.then(a, func(j int) set { return r.parse(ntKeptOrDest, j) })
			}
			one := clause(p + 1)
			out.or(r.thenTok(r.star(one, clause), RBR))
			inord := func(i int) set {
				if !r.tok(i, MAX) {
					return r.empty()
				}
				c := r.parse(ntValueExpr, i+1)
				return r.then(c, func(j int) set { return r.parse(ntKeptOrDest, j) })
			}
			cl := r.star(r.single(p+1), inord)
			rem := r.thenTok(cl, REMAINING)
			rem = r.then(rem, func(j int) set { return r.parse(ntKeptOrDest, j) })
			out.or(r.thenTok(rem, RBR))
		}
	case ntFnCall:
		out = r.empty()
		if (r.tok(p, IDENT) || r.tok(p, OVERDRAFT)) && r.tok(p+1, LP) {
			if r.tok(p+2, RP) {
				out.add(p + 3)
			}
			a := r.parse(ntValueExpr, p+2)
			a = r.star(a, func(i int) set {
				if r.tok(i, COMMA) {
					return r.parse(ntValueExpr, i+1)
				}
				return r.empty()
			})
			out.or(r.thenTok(a, RP))
		}
	case ntSentValue:
		out = r.empty()
		out.or(r.parse(ntValueExpr, p))
		if r.tok(p, LBK) {
			a := r.parse(ntValueExpr, p+1)
			out.or(r.thenTok(r.thenTok(a, STAR), RBK))
		}
	case ntStatement:
		out = r.empty()
		if r.tok(p, SEND) {
			s := r.parse(ntSentValue, p+1)
			s = r.thenTok(r.thenTok(r.thenTok(s, LP), SOURCE), EQ)
			s = r.then(s, func(i int) set { return r.parse(ntSource, i) })
			s = r.thenTok(r.thenTok(s, DESTINATION), EQ)
			s = r.then(s, func(i int) set { return r.parse(ntDestination, i) })
			out.or(r.thenTok(s, RP))
		}
		if r.tok(p, SAVE) {
			s := r.thenTok(r.parse(ntSentValue, p+1), FROM)
			out.or(r.then(s, func(i int) set { return r.parse(ntValueExpr, i) }))
		}
		out.or(r.parse(ntFnCall, p))
	case ntVarDecl:
		out = r.empty()
		if r.tok(p, IDENT) && r.tok(p+1, VARNAME) {
			out.add(p + 2)
			if r.tok(p+2, EQ) {
				out.or(r.parse(ntFnCall, p+3))
			}
		}
	}
	r.memo[k] = out
	return out
}

// Accepts decides whether the token-kind sequence is a program.
func Accepts(toks []int) bool {
	r := &R{t: toks, n: len(toks), memo: map[[2]int]set{}}
	start := r.single(0)
	if r.tok(0, VARS) && r.tok(1, LBR) {
		v := r.star(r.single(2), func(i int) set { return r.parse(ntVarDecl, i) })
		v = r.thenTok(v, RBR)
		start.or(v) // with varsDeclaration (note: also keeps "no vars" option at 0, which then fails on VARS)
	}
	s := r.star(start, func(i int) set { return r.parse(ntStatement, i) })
	return s.has(r.n)
}

// Valid reports whether text is a syntactically valid script.
func Valid(text string) bool {
	toks, ok := Lex(text)
	return ok && Accepts(toks)
}
