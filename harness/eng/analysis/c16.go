package main

import (
	"fmt"
	"sort"
	"strings"

	"github.com/formancehq/numscript/internal/analysis"
	"github.com/formancehq/numscript/verifharness/fw"
	"github.com/formancehq/numscript/verifharness/gen"
	"github.com/formancehq/numscript/verifharness/rng"
)

func propC16() *fw.Prop {
	return &fw.Prop{
		ID: "C16", Level: "exploration",
		Rule:        "(i) statically valid scripts from the typed generator (all constructs, six types, variables in every position, + and −, bounded overdraft and caps under send-all, allotments with literals / variables / remaining) under random layouts: analysis.CheckSource must report no error-severity diagnostic. (ii) name mutants of those scripts (delete / duplicate / rename a declaration, rename or remove a use, use inside a variable origin before the declaration): an independent name model (declarations and uses with the token spans recorded by the printer) predicts the exact multiset of UnboundVariable / DuplicateVariable / UnusedVar diagnostics (kind, name, range); compared exactly, except where the property leaves the outcome open (a name whose only uses precede its declaration: compared on the unbound part only). Distinct = (construct containing the variable use, mutation kind) and script shapes.",
		Assumptions: []string{trustedBase},
		Require:     []string{"valid_scripts_checked", "name_mutants_checked", "expected_unbound", "expected_duplicate", "expected_unused", "send_all_with_bounded_overdraft"},
		Run:         runC16,
	}
}

func typedCfgs() []gen.LCfg {
	b := gen.DefaultLCfg()
	b.BigLiterals = true
	mk := func(f func(c *gen.LCfg)) gen.LCfg { c := b; f(&c); return c }
	return []gen.LCfg{
		b,
		mk(func(c *gen.LCfg) { c.PVarAcct, c.PVarAmt, c.PInfix, c.PPortionVar, c.POriginVar = 70, 70, 40, 60, 20 }),
		mk(func(c *gen.LCfg) { c.PSendAll, c.POverdraft, c.PSrcCap, c.PSrcSeq = 75, 50, 30, 45 }),
		mk(func(c *gen.LCfg) { c.PSrcAllot, c.PDstAllot, c.PPortionVar, c.PRemaining = 45, 50, 40, 50 }),
		mk(func(c *gen.LCfg) { c.PMetaStmt, c.PSave, c.PVarAcct = 40, 30, 50 }),
		mk(func(c *gen.LCfg) { c.Depth, c.Fanout, c.MaxStmts = 4, 4, 6 }),
	}
}

// ---- name model ----

type nameUse struct {
	name   string
	span   gen.Span
	origin int    // index of the declaration whose origin contains the use, −1 = statement
	where  string // construct containing the use
}

type nameDecl struct {
	name string
	span gen.Span
}

func collectNames(sc *gen.Script, p *gen.Printed) (decls []nameDecl, uses []nameUse) {
	for _, d := range sc.Vars {
		sp, _ := p.SpanOf(d, "name")
		decls = append(decls, nameDecl{d.Name, sp})
	}
	var expr func(e gen.Expr, origin int, where string)
	expr = func(e gen.Expr, origin int, where string) {
		switch e := e.(type) {
		case *gen.Var:
			sp, _ := p.SpanOf(e, "")
			uses = append(uses, nameUse{e.Name, sp, origin, where})
		case *gen.Mon:
			expr(e.Asset, origin, where+">monetary.asset")
			expr(e.Amount, origin, where+">monetary.amount")
		case *gen.Infix:
			expr(e.L, origin, where+">infix.left")
			expr(e.R, origin, where+">infix.right")
		}
	}
	allot := func(a gen.Allot, where string) {
		if v, ok := a.(*gen.AllotVar); ok {
			expr(v.V, -1, where+">portion")
		}
	}
	var src func(s gen.Source, where string)
	src = func(s gen.Source, where string) {
		switch s := s.(type) {
		case *gen.SrcAccount:
			expr(s.E, -1, where+">account")
		case *gen.SrcOverdraft:
			expr(s.Addr, -1, where+">overdraft.address")
			if s.Bounded != nil {
				expr(s.Bounded, -1, where+">overdraft.bound")
			}
		case *gen.SrcInorder:
			for _, x := range s.Srcs {
				src(x, where+">inorder")
			}
		case *gen.SrcAllot:
			for _, it := range s.Items {
				allot(it.A, where+">allot")
				src(it.From, where+">allot")
			}
		case *gen.SrcCapped:
			expr(s.Cap, -1, where+">cap")
			src(s.From, where+">capped")
		}
	}
	var dst func(d gen.Dest, where string)
	kod := func(k *gen.KOD, where string) {
		if k != nil && !k.Kept {
			dst(k.To, where)
		}
	}
	dst = func(d gen.Dest, where string) {
		switch d := d.(type) {
		case *gen.DstAccount:
			expr(d.E, -1, where+">account")
		case *gen.DstInorder:
			for _, cl := range d.Clauses {
				expr(cl.Cap, -1, where+">inorder.cap")
				kod(cl.To, where+">inorder")
			}
			kod(d.Remaining, where+">inorder.remaining")
		case *gen.DstAllot:
			for _, it := range d.Items {
				allot(it.A, where+">allot")
				kod(it.To, where+">allot")
			}
		}
	}
	for i, d := range sc.Vars {
		if d.Origin != nil {
			for _, a := range d.Origin.Args {
				expr(a, i, "origin")
			}
		}
	}
	for _, st := range sc.Stmts {
		switch st := st.(type) {
		case *gen.Send:
			expr(st.Sent.E, -1, "send.sent")
			src(st.Src, "send.source")
			dst(st.Dst, "send.destination")
		case *gen.Save:
			expr(st.Sent.E, -1, "save.sent")
			expr(st.From, -1, "save.from")
		case *gen.Call:
			for _, a := range st.Args {
				expr(a, -1, "call.arg")
			}
		}
	}
	return
}

func spanKey(s gen.Span) string {
	return fmt.Sprintf("%d:%d-%d:%d", s.Start.Line, s.Start.Char, s.End.Line, s.End.Char)
}

// expectedNames predicts the name diagnostics. open: names for which the unused verdict is
// left open by the property.
func expectedNames(decls []nameDecl, uses []nameUse) (want []string, open map[string]bool) {
	open = map[string]bool{}
	firstDecl := map[string]int{}
	for i, d := range decls {
		if _, ok := firstDecl[d.name]; ok {
			want = append(want, "DuplicateVariable "+d.name+" "+spanKey(d.span))
		} else {
			firstDecl[d.name] = i
		}
	}
	usedProperly := map[string]bool{}
	usedEarly := map[string]bool{}
	for _, u := range uses {
		fd, declared := firstDecl[u.name]
		switch {
		case !declared:
			want = append(want, "UnboundVariable "+u.name+" "+spanKey(u.span))
		case u.origin >= 0 && fd > u.origin:
			want = append(want, "UnboundVariable "+u.name+" "+spanKey(u.span))
			usedEarly[u.name] = true
		default:
			usedProperly[u.name] = true
		}
	}
	for name, i := range firstDecl {
		if usedProperly[name] {
			continue
		}
		if usedEarly[name] {
			open[name] = true
			continue
		}
		want = append(want, "UnusedVar "+name+" "+spanKey(decls[i].span))
	}
	sort.Strings(want)
	return
}

func actualNames(ds []analysis.Diagnostic, open map[string]bool) []string {
	var got []string
	for _, d := range ds {
		var name string
		switch k := d.Kind.(type) {
		case *analysis.UnboundVariable:
			name = k.Name
		case *analysis.DuplicateVariable:
			name = k.Name
		case *analysis.UnusedVar:
			name = k.Name
			if open[name] {
				continue
			}
		default:
			continue
		}
		got = append(got, diagKind(d)+" "+name+" "+showRange(d.Range))
	}
	sort.Strings(got)
	return got
}

// ---- mutations ----

func allVarNodes(sc *gen.Script) []*gen.Var {
	var out []*gen.Var
	p := gen.PrintCanonical(sc)
	_, uses := collectNames(sc, p)
	_ = uses
	var expr func(e gen.Expr)
	expr = func(e gen.Expr) {
		switch e := e.(type) {
		case *gen.Var:
			out = append(out, e)
		case *gen.Mon:
			expr(e.Asset)
			expr(e.Amount)
		case *gen.Infix:
			expr(e.L)
			expr(e.R)
		}
	}
	gen.WalkExprs(sc, expr)
	return out
}

func mutateNames(r *rng.R, sc *gen.Script) string {
	vars := allVarNodes(sc)
	for attempt := 0; attempt < 8; attempt++ {
		switch r.Intn(7) {
		case 0: // delete a declaration
			if len(sc.Vars) == 0 {
				continue
			}
			i := r.Intn(len(sc.Vars))
			sc.Vars = append(sc.Vars[:i:i], sc.Vars[i+1:]...)
			return "delete-declaration"
		case 1: // duplicate a declaration (possibly with another type)
			if len(sc.Vars) == 0 {
				continue
			}
			d := *sc.Vars[r.Intn(len(sc.Vars))]
			if r.Bool() {
				d.Type = r.Pick("monetary", "account", "portion", "asset", "number", "string")
			}
			d.Origin = nil
			pos := r.Intn(len(sc.Vars) + 1)
			nv := append([]*gen.VarDecl{}, sc.Vars[:pos]...)
			nv = append(nv, &d)
			sc.Vars = append(nv, sc.Vars[pos:]...)
			return "duplicate-declaration"
		case 2: // rename a declaration
			if len(sc.Vars) == 0 {
				continue
			}
			d := sc.Vars[r.Intn(len(sc.Vars))]
			d.Name = d.Name + "_renamed"
			return "rename-declaration"
		case 3: // rename a use
			if len(vars) == 0 {
				continue
			}
			v := vars[r.Intn(len(vars))]
			if r.Bool() && len(sc.Vars) > 0 {
				v.Name = sc.Vars[r.Intn(len(sc.Vars))].Name // another declared name
				return "retarget-use"
			}
			v.Name = v.Name + "_x"
			return "rename-use"
		case 4: // add an unused declaration
			sc.Vars = append(sc.Vars, &gen.VarDecl{Type: r.Pick("monetary", "account", "string"), Name: "unused_" + itoa(r.Intn(5))})
			return "add-unused-declaration"
		case 5: // origin argument referring to a later / same / missing declaration
			if len(sc.Vars) < 2 {
				continue
			}
			i := r.Intn(len(sc.Vars) - 1)
			j := i + 1 + r.Intn(len(sc.Vars)-i-1)
			target := sc.Vars[j].Name
			sc.Vars[i].Origin = &gen.Call{Name: "meta", Args: []gen.Expr{gen.V(target), gen.S("k")}}
			return "origin-uses-later-declaration"
		case 6: // origin argument referring to an earlier declaration (bound)
			if len(sc.Vars) < 2 {
				continue
			}
			j := 1 + r.Intn(len(sc.Vars)-1)
			i := r.Intn(j)
			sc.Vars[j].Origin = &gen.Call{Name: "meta", Args: []gen.Expr{gen.V(sc.Vars[i].Name), gen.S("k")}}
			return "origin-uses-earlier-declaration"
		}
	}
	return ""
}

func hasBoundedOverdraftUnderSendAll(sc *gen.Script) bool {
	found := false
	var walk func(s gen.Source)
	walk = func(s gen.Source) {
		switch s := s.(type) {
		case *gen.SrcOverdraft:
			if s.Bounded != nil {
				found = true
			}
		case *gen.SrcInorder:
			for _, x := range s.Srcs {
				walk(x)
			}
		}
	}
	for _, st := range sc.Stmts {
		if sd, ok := st.(*gen.Send); ok && sd.Sent.All {
			walk(sd.Src)
		}
	}
	return found
}

func runC16(c *fw.Ctx) {
	cfgs := typedCfgs()
	n := c.N(30000, 2000000)
	for i := 0; i < n; i++ {
		id := "typed/" + itoa(i)
		if !c.Want(i, id) {
			continue
		}
		r := c.Rng(id)
		cs := gen.GenLedger(r, cfgs[i%len(cfgs)])
		sc := cs.Script
		lay := gen.Layout{Kind: r.Intn(gen.NumLayouts), R: r}
		pr := gen.Print(sc, lay)
		input := func(extra map[string]any) any {
			d := map[string]any{"text": pr.Text}
			for k, v := range extra {
				d[k] = v
			}
			return d
		}
		var res analysis.CheckResult
		if !c.Guard("analysis.CheckSource", func() any { return input(nil) }, func() { res = analysis.CheckSource(pr.Text) }) {
			return
		}
		c.Eval()
		// (i) no error on a valid script
		for _, d := range res.Diagnostics {
			if d.Kind.Severity() == analysis.ErrorSeverity {
				c.Violation("false-error:"+diagKind(d), fmt.Sprintf("a statically valid script receives the error %s at %s: %s", diagKind(d), showRange(d.Range), d.Kind.Message()), input(nil))
				return
			}
		}
		c.Count("valid_scripts_checked", 1)
		if hasBoundedOverdraftUnderSendAll(sc) {
			c.Count("send_all_with_bounded_overdraft", 1)
		}
		// names on the unmutated script too
		{
			decls, uses := collectNames(sc, pr)
			want, open := expectedNames(decls, uses)
			got := actualNames(res.Diagnostics, open)
			if strings.Join(want, "\n") != strings.Join(got, "\n") {
				c.Violation("names", fmt.Sprintf("name diagnostics differ: expected %v ⏎ got %v", want, got), input(nil))
				return
			}
			c.Distinct("valid|" + gen.ShapeKey(sc))
		}
		// (ii) name mutants
		for m := 0; m < 3; m++ {
			r2 := c.Rng(id + "/m" + itoa(m))
			cs2 := gen.GenLedger(c.Rng(id), cfgs[i%len(cfgs)]) // identical twin
			kind := mutateNames(r2, cs2.Script)
			if kind == "" {
				continue
			}
			pr2 := gen.Print(cs2.Script, gen.Layout{Kind: r2.Intn(gen.NumLayouts), R: r2})
			in2 := func() any {
				return map[string]any{"text": pr2.Text, "mutation": kind, "original": gen.PrintCanonical(sc).Text}
			}
			var res2 analysis.CheckResult
			if !c.Guard("analysis.CheckSource", in2, func() { res2 = analysis.CheckSource(pr2.Text) }) {
				return
			}
			c.Eval()
			decls, uses := collectNames(cs2.Script, pr2)
			want, open := expectedNames(decls, uses)
			got := actualNames(res2.Diagnostics, open)
			if strings.Join(want, "\n") != strings.Join(got, "\n") {
				c.Violation("names:"+kind, fmt.Sprintf("after %s: expected %v ⏎ got %v", kind, want, got), in2())
				return
			}
			c.Count("name_mutants_checked", 1)
			for _, w := range want {
				switch {
				case strings.HasPrefix(w, "Unbound"):
					c.Count("expected_unbound", 1)
				case strings.HasPrefix(w, "Duplicate"):
					c.Count("expected_duplicate", 1)
				case strings.HasPrefix(w, "Unused"):
					c.Count("expected_unused", 1)
				}
			}
			for _, u := range uses {
				c.Distinct(kind + "|" + u.where)
			}
			if c.WantSample() && i%43 == 6 {
				c.Sample(map[string]any{"case": id, "mutation": kind, "text": pr2.Text, "expected_name_diagnostics": want})
			}
		}
	}
}
