package main

import (
	"fmt"
	"sort"
	"strings"

	"github.com/formancehq/numscript/internal/analysis"
	"github.com/formancehq/numscript/verifharness/fw"
	"github.com/formancehq/numscript/verifharness/gen"
	"github.com/formancehq/numscript/verifharness/rng"
)

func propC16() *fw.Prop {
	return &fw.Prop{
		ID: "C16", Level: "exploration",
		Rule:        "(i) statically valid scripts from the typed generator (all constructs, six types, variables in every position, + and −, bounded overdraft and caps under send-all, allotments with literals / variables / remaining) under random layouts: analysis.CheckSource must report no error-severity diagnostic. (ii) name mutants of those scripts (delete / duplicate / rename a declaration, rename or remove a use, use inside a variable origin before the declaration): an independent name model (declarations and uses with the token spans recorded by the printer) predicts the exact multiset of UnboundVariable / DuplicateVariable / UnusedVar diagnostics (kind, name, range); compared exactly, except where the property leaves the outcome open (a name whose only uses precede its declaration: compared on the unbound part only). Distinct = (construct containing the variable use, mutation kind) and script shapes. Added later: world-like account names; mutations: a metadata value of any shape and typing with uses at every depth, an argument of a call removed, calls with too few arguments.",
		Assumptions: []string{trustedBase},
		Require:     []string{"valid_scripts_checked", "name_mutants_checked", "expected_unbound", "expected_duplicate", "expected_unused", "send_all_with_bounded_overdraft"},
		Run:         runC16,
	}
}

func typedCfgs() []gen.LCfg {
	b := gen.DefaultLCfg()
	b.BigLiterals = true
	mk := func(f func(c *gen.LCfg)) gen.LCfg { c := b; f(&c); return c }
	return []gen.LCfg{
		b,
		mk(func(c *gen.LCfg) { c.PVarAcct, c.PVarAmt, c.PInfix, c.PPortionVar, c.POriginVar = 70, 70, 40, 60, 20 }),
		mk(func(c *gen.LCfg) { c.PSendAll, c.POverdraft, c.PSrcCap, c.PSrcSeq = 75, 50, 30, 45 }),
		mk(func(c *gen.LCfg) { c.PSrcAllot, c.PDstAllot, c.PPortionVar, c.PRemaining = 45, 50, 40, 50 }),
		mk(func(c *gen.LCfg) { c.PMetaStmt, c.PSave, c.PVarAcct = 40, 30, 50 }),
		mk(func(c *gen.LCfg) { c.Depth, c.Fanout, c.MaxStmts = 4, 4, 6 }),
		// ordinary accounts whose names resemble @world, under send-all and in the middle of lists
		mk(func(c *gen.LCfg) {
			c.Accounts = []string{"World", "WORLD", "wOrld", "worlds", "world:a", "a:world", "a", "world_"}
			c.PSendAll, c.PSrcSeq, c.POverdraft, c.PWorld = 50, 50, 30, 5
		}),
	}
}

// ---- name model ----

type nameUse = gen.NameUse
type nameDecl = gen.NameDecl

func collectNames(sc *gen.Script, p *gen.Printed) ([]nameDecl, []nameUse) {
	return gen.CollectNames(sc, p)
}

func spanKey(s gen.Span) string {
	return fmt.Sprintf("%d:%d-%d:%d", s.Start.Line, s.Start.Char, s.End.Line, s.End.Char)
}

// expectedNames predicts the name diagnostics. open: names for which the unused verdict is
// left open by the property.
func expectedNames(decls []nameDecl, uses []nameUse) (want []string, open map[string]bool) {
	open = map[string]bool{}
	firstDecl := map[string]int{}
	for i, d := range decls {
		if _, ok := firstDecl[d.Name]; ok {
			want = append(want, "DuplicateVariable "+d.Name+" "+spanKey(d.Span))
		} else {
			firstDecl[d.Name] = i
		}
	}
	usedProperly := map[string]bool{}
	usedEarly := map[string]bool{}
	for _, u := range uses {
		fd, declared := firstDecl[u.Name]
		switch {
		case !declared:
			want = append(want, "UnboundVariable "+u.Name+" "+spanKey(u.Span))
		case u.Origin >= 0 && fd >= u.Origin: // a variable is not in scope inside its own origin
			want = append(want, "UnboundVariable "+u.Name+" "+spanKey(u.Span))
			usedEarly[u.Name] = true
		default:
			usedProperly[u.Name] = true
		}
	}
	for name, i := range firstDecl {
		if usedProperly[name] {
			continue
		}
		if usedEarly[name] {
			open[name] = true
			continue
		}
		want = append(want, "UnusedVar "+name+" "+spanKey(decls[i].Span))
	}
	sort.Strings(want)
	return
}

func actualNames(ds []analysis.Diagnostic, open map[string]bool) []string {
	var got []string
	for _, d := range ds {
		var name string
		switch k := d.Kind.(type) {
		case *analysis.UnboundVariable:
			name = k.Name
		case *analysis.DuplicateVariable:
			name = k.Name
		case *analysis.UnusedVar:
			name = k.Name
			if open[name] {
				continue
			}
		default:
			continue
		}
		got = append(got, diagKind(d)+" "+name+" "+showRange(d.Range))
	}
	sort.Strings(got)
	return got
}

// ---- mutations ----

func allVarNodes(sc *gen.Script) []*gen.Var {
	var out []*gen.Var
	p := gen.PrintCanonical(sc)
	_, uses := collectNames(sc, p)
	_ = uses
	var expr func(e gen.Expr)
	expr = func(e gen.Expr) {
		switch e := e.(type) {
		case *gen.Var:
			out = append(out, e)
		case *gen.Mon:
			expr(e.Asset)
			expr(e.Amount)
		case *gen.Infix:
			expr(e.L)
			expr(e.R)
		}
	}
	gen.WalkExprs(sc, expr)
	return out
}

func mutateNames(r *rng.R, sc *gen.Script) string {
	vars := allVarNodes(sc)
	for attempt := 0; attempt < 8; attempt++ {
		switch r.Intn(16) {
		case 13: // a type name that is almost one of the six
			if len(sc.Vars) == 0 {
				continue
			}
			d := sc.Vars[r.Intn(len(sc.Vars))]
			d.Type = r.Pick("acount", "accounts", "monetry", "monetary_", "numbr", "nunber", "strng", "strings", "portio", "portions", "aset", "assets", "Account", "int")
			return "mistyped-type-name"
		case 14, 15: // a name declared twice, used (inside an origin) between the two declarations and nowhere else
			name := "twice_" + itoa(r.Intn(3))
			via := "via_" + name
			first := &gen.VarDecl{Type: "account", Name: name}
			user := &gen.VarDecl{Type: "string", Name: via, Origin: &gen.Call{Name: "meta", Args: []gen.Expr{gen.V(name), gen.S("k")}}}
			second := &gen.VarDecl{Type: r.Pick("account", "string"), Name: name}
			pos := r.Intn(len(sc.Vars) + 1)
			nv := append([]*gen.VarDecl{}, sc.Vars[:pos]...)
			nv = append(nv, first)
			nv = append(nv, sc.Vars[pos:]...)
			nv = append(nv, user)
			if r.Bool() {
				// the repeated declaration reads the first one in its own origin
				second.Origin = &gen.Call{Name: "meta", Args: []gen.Expr{gen.V(name), gen.S("k2")}}
				second.Type = "string"
			}
			nv = append(nv, second)
			sc.Vars = nv
			sc.Stmts = append(sc.Stmts, &gen.Call{Name: "set_tx_meta", Args: []gen.Expr{gen.S("via"), gen.V(via)}})
			return "redeclared-after-a-use-in-an-origin"
		case 10, 11: // an expression of any shape and typing, with uses at every depth, as a metadata value
			fresh := ""
			if r.Bool() {
				fresh = "only_here_" + itoa(r.Intn(3))
				sc.Vars = append(sc.Vars, &gen.VarDecl{Type: r.Pick("asset", "number", "monetary", "account", "string", "portion"), Name: fresh})
			}
			pickVar := func() gen.Expr {
				switch {
				case fresh != "" && r.Chance(1, 2):
					return gen.V(fresh)
				case len(sc.Vars) > 0 && r.Chance(2, 3):
					return gen.V(sc.Vars[r.Intn(len(sc.Vars))].Name)
				}
				return gen.V("nowhere_declared_" + itoa(r.Intn(2)))
			}
			var build func(depth int) gen.Expr
			build = func(depth int) gen.Expr {
				switch k := r.Intn(8); {
				case depth > 0 && k < 3:
					op := byte('+')
					if r.Bool() {
						op = '-'
					}
					return &gen.Infix{Op: op, L: build(depth - 1), R: build(depth - 1)}
				case depth > 0 && k < 5:
					return &gen.Mon{Asset: build(0), Amount: build(depth - 1)}
				case k < 7:
					return pickVar()
				}
				return litOfType(r, r.Pick("number", "monetary", "account", "asset", "string", "portion"))
			}
			e := build(r.Range(1, 3))
			if fresh != "" {
				// the new variable is used at least once
				e = &gen.Infix{Op: '+', L: e, R: &gen.Mon{Asset: gen.V(fresh), Amount: gen.N("1")}}
				if r.Bool() {
					e = &gen.Infix{Op: '-', L: gen.V(fresh), R: e.(*gen.Infix).L}
				}
			}
			pos := r.Intn(len(sc.Stmts) + 1)
			cl := &gen.Call{Name: "set_tx_meta", Args: []gen.Expr{gen.S("k"), e}}
			sc.Stmts = append(sc.Stmts[:pos:pos], append([]gen.Stmt{cl}, sc.Stmts[pos:]...)...)
			return "expression-of-any-typing"
		case 12: // an argument of a call removed (the call has too few arguments; the others stay)
			var calls []*gen.Call
			for _, d := range sc.Vars {
				if d.Origin != nil {
					calls = append(calls, d.Origin)
				}
			}
			for _, st := range sc.Stmts {
				if cl, ok := st.(*gen.Call); ok {
					calls = append(calls, cl)
				}
			}
			if len(calls) == 0 || r.Chance(1, 3) {
				// a new call with too few arguments, naming declared or undeclared variables
				name := "undeclared_arg"
				if len(sc.Vars) > 0 && r.Chance(2, 3) {
					name = sc.Vars[r.Intn(len(sc.Vars))].Name
				}
				if r.Bool() || len(sc.Vars) == 0 {
					sc.Stmts = append(sc.Stmts, &gen.Call{Name: r.Pick("set_tx_meta", "set_account_meta"), Args: []gen.Expr{gen.V(name)}})
				} else {
					d := sc.Vars[len(sc.Vars)-1]
					if d.Origin == nil {
						d.Origin = &gen.Call{Name: r.Pick("balance", "meta", "overdraft"), Args: []gen.Expr{gen.V(name)}}
					}
				}
				return "call-with-too-few-arguments"
			}
			cl := calls[r.Intn(len(calls))]
			if len(cl.Args) == 0 {
				continue
			}
			i := r.Intn(len(cl.Args))
			cl.Args = append(cl.Args[:i:i], cl.Args[i+1:]...)
			return "remove-call-argument"
		case 8, 9: // a use duplicated (or a new use added) as an extra argument of a call
			var calls []*gen.Call
			for _, d := range sc.Vars {
				if d.Origin != nil {
					calls = append(calls, d.Origin)
				}
			}
			for _, st := range sc.Stmts {
				if cl, ok := st.(*gen.Call); ok {
					calls = append(calls, cl)
				}
			}
			if len(calls) == 0 {
				cl := &gen.Call{Name: "set_tx_meta", Args: []gen.Expr{gen.S("k"), gen.N("1")}}
				sc.Stmts = append(sc.Stmts, cl)
				calls = append(calls, cl)
			}
			cl := calls[r.Intn(len(calls))]
			name := "extra_undeclared"
			if len(sc.Vars) > 0 && r.Chance(2, 3) {
				name = sc.Vars[r.Intn(len(sc.Vars))].Name
			}
			for k := r.Range(1, 2); k > 0; k-- {
				cl.Args = append(cl.Args, gen.V(name))
			}
			return "extra-argument-use"
		case 7: // origin argument referring to the variable being declared
			if len(sc.Vars) == 0 {
				continue
			}
			d := sc.Vars[r.Intn(len(sc.Vars))]
			d.Origin = &gen.Call{Name: "meta", Args: []gen.Expr{gen.V(d.Name), gen.S("k")}}
			return "origin-uses-own-declaration"
		case 0: // delete a declaration
			if len(sc.Vars) == 0 {
				continue
			}
			i := r.Intn(len(sc.Vars))
			sc.Vars = append(sc.Vars[:i:i], sc.Vars[i+1:]...)
			return "delete-declaration"
		case 1: // duplicate a declaration (possibly with another type)
			if len(sc.Vars) == 0 {
				continue
			}
			d := *sc.Vars[r.Intn(len(sc.Vars))]
			if r.Bool() {
				d.Type = r.Pick("monetary", "account", "portion", "asset", "number", "string")
			}
			d.Origin = nil
			pos := r.Intn(len(sc.Vars) + 1)
			nv := append([]*gen.VarDecl{}, sc.Vars[:pos]...)
			nv = append(nv, &d)
			sc.Vars = append(nv, sc.Vars[pos:]...)
			return "duplicate-declaration"
		case 2: // rename a declaration
			if len(sc.Vars) == 0 {
				continue
			}
			d := sc.Vars[r.Intn(len(sc.Vars))]
			d.Name = d.Name + "_renamed"
			return "rename-declaration"
		case 3: // rename a use
			if len(vars) == 0 {
				continue
			}
			v := vars[r.Intn(len(vars))]
			if r.Bool() && len(sc.Vars) > 0 {
				v.Name = sc.Vars[r.Intn(len(sc.Vars))].Name // another declared name
				return "retarget-use"
			}
			v.Name = v.Name + "_x"
			return "rename-use"
		case 4: // add an unused declaration
			sc.Vars = append(sc.Vars, &gen.VarDecl{Type: r.Pick("monetary", "account", "string"), Name: r.Pick("unused_", "_", "_fee", "__m", "x", "world", "kept_", "tmp") + itoa(r.Intn(5))})
			return "add-unused-declaration"
		case 5: // origin argument referring to a later / same / missing declaration
			if len(sc.Vars) < 2 {
				continue
			}
			i := r.Intn(len(sc.Vars) - 1)
			j := i + 1 + r.Intn(len(sc.Vars)-i-1)
			target := sc.Vars[j].Name
			sc.Vars[i].Origin = &gen.Call{Name: "meta", Args: []gen.Expr{gen.V(target), gen.S("k")}}
			return "origin-uses-later-declaration"
		case 6: // origin argument referring to an earlier declaration (bound)
			if len(sc.Vars) < 2 {
				continue
			}
			j := 1 + r.Intn(len(sc.Vars)-1)
			i := r.Intn(j)
			sc.Vars[j].Origin = &gen.Call{Name: "meta", Args: []gen.Expr{gen.V(sc.Vars[i].Name), gen.S("k")}}
			return "origin-uses-earlier-declaration"
		}
	}
	return ""
}

func hasBoundedOverdraftUnderSendAll(sc *gen.Script) bool {
	found := false
	var walk func(s gen.Source)
	walk = func(s gen.Source) {
		switch s := s.(type) {
		case *gen.SrcOverdraft:
			if s.Bounded != nil {
				found = true
			}
		case *gen.SrcInorder:
			for _, x := range s.Srcs {
				walk(x)
			}
		}
	}
	for _, st := range sc.Stmts {
		if sd, ok := st.(*gen.Send); ok && sd.Sent.All {
			walk(sd.Src)
		}
	}
	return found
}

func runC16(c *fw.Ctx) {
	cfgs := typedCfgs()
	n := c.N(40000, 2000000)
	for i := 0; i < n; i++ {
		id := "typed/" + itoa(i)
		if !c.Want(i, id) {
			continue
		}
		r := c.Rng(id)
		cs := gen.GenLedger(r, cfgs[i%len(cfgs)])
		sc := cs.Script
		lay := gen.Layout{Kind: r.Intn(gen.NumLayouts), R: r}
		pr := gen.Print(sc, lay)
		input := func(extra map[string]any) any {
			d := map[string]any{"text": pr.Text}
			for k, v := range extra {
				d[k] = v
			}
			return d
		}
		var res analysis.CheckResult
		if !c.Guard("analysis.CheckSource", func() any { return input(nil) }, func() { res = analysis.CheckSource(pr.Text) }) {
			return
		}
		c.Eval()
		// (i) no error on a valid script
		for _, d := range res.Diagnostics {
			if d.Kind.Severity() == analysis.ErrorSeverity {
				c.Violation("false-error:"+diagKind(d), fmt.Sprintf("a statically valid script receives the error %s at %s: %s", diagKind(d), showRange(d.Range), d.Kind.Message()), input(nil))
				return
			}
		}
		c.Count("valid_scripts_checked", 1)
		if hasBoundedOverdraftUnderSendAll(sc) {
			c.Count("send_all_with_bounded_overdraft", 1)
		}
		// names on the unmutated script too
		{
			decls, uses := collectNames(sc, pr)
			want, open := expectedNames(decls, uses)
			got := actualNames(res.Diagnostics, open)
			if strings.Join(want, "\n") != strings.Join(got, "\n") {
				c.Violation("names", fmt.Sprintf("name diagnostics differ: expected %v ⏎ got %v", want, got), input(nil))
				return
			}
			c.Distinct("valid|" + gen.ShapeKey(sc))
		}
		// (ii) name mutants
		for m := 0; m < 3; m++ {
			r2 := c.Rng(id + "/m" + itoa(m))
			cs2 := gen.GenLedger(c.Rng(id), cfgs[i%len(cfgs)]) // identical twin
			kind := mutateNames(r2, cs2.Script)
			if kind == "" {
				continue
			}
			pr2 := gen.Print(cs2.Script, gen.Layout{Kind: r2.Intn(gen.NumLayouts), R: r2})
			in2 := func() any {
				return map[string]any{"text": pr2.Text, "mutation": kind, "original": gen.PrintCanonical(sc).Text}
			}
			var res2 analysis.CheckResult
			if !c.Guard("analysis.CheckSource", in2, func() { res2 = analysis.CheckSource(pr2.Text) }) {
				return
			}
			c.Eval()
			// what an editor or the command line does with every diagnostic: render it
			if !c.Guard("Diagnostic.Message", in2, func() {
				for _, d := range res2.Diagnostics {
					_ = d.Kind.Message()
				}
			}) {
				return
			}
			decls, uses := collectNames(cs2.Script, pr2)
			want, open := expectedNames(decls, uses)
			got := actualNames(res2.Diagnostics, open)
			if strings.Join(want, "\n") != strings.Join(got, "\n") {
				c.Violation("names:"+kind, fmt.Sprintf("after %s: expected %v ⏎ got %v", kind, want, got), in2())
				return
			}
			c.Count("name_mutants_checked", 1)
			for _, w := range want {
				switch {
				case strings.HasPrefix(w, "Unbound"):
					c.Count("expected_unbound", 1)
				case strings.HasPrefix(w, "Duplicate"):
					c.Count("expected_duplicate", 1)
				case strings.HasPrefix(w, "Unused"):
					c.Count("expected_unused", 1)
				}
			}
			for _, u := range uses {
				c.Distinct(kind + "|" + u.Where)
			}
			if c.WantSample() && i%43 == 6 {
				c.Sample(map[string]any{"case": id, "mutation": kind, "text": pr2.Text, "expected_name_diagnostics": want})
			}
		}
	}
}
