// Engine "analysis": properties C16 (checker exactness), C17 (clean check ⇒ no static-class
// failure at run time) and C18 (editor analysis survives any text).
package main

import (
	"fmt"
	"sort"
	"strings"

	"github.com/formancehq/numscript/internal/analysis"
	"github.com/formancehq/numscript/internal/parser"
	"github.com/formancehq/numscript/verifharness/fw"
	"github.com/formancehq/numscript/verifharness/gen"
	"github.com/formancehq/numscript/verifharness/rng"
)

func main() {
	fw.Register(propC16(), propC17(), propC18())
	fw.Main()
}

const trustedBase = "harness generators, printer and name model (DESIGN §4); Go runtime; observation at analysis.CheckSource / GetSymbols / HoverOn / GotoDefinition and numscript.Parse/Run"

func itoa(i int) string { return fmt.Sprint(i) }

func diagKind(d analysis.Diagnostic) string {
	t := fmt.Sprintf("%T", d.Kind)
	return strings.TrimPrefix(t, "*analysis.")
}

func showRange(r parser.Range) string {
	return fmt.Sprintf("%d:%d-%d:%d", r.Start.Line, r.Start.Character, r.End.Line, r.End.Character)
}

func diagSet(ds []analysis.Diagnostic) []string {
	var out []string
	for _, d := range ds {
		msg := ""
		fw.Catch(func() { msg = d.Kind.Message() })
		out = append(out, fmt.Sprintf("%s@%s sev%d %q", diagKind(d), showRange(d.Range), d.Kind.Severity(), msg))
	}
	sort.Strings(out)
	return out
}

func symbolSet(ss []analysis.DocumentSymbol) []string {
	var out []string
	for _, s := range ss {
		out = append(out, fmt.Sprintf("%s:%s@%s/%s k%v", s.Name, s.Detail, showRange(s.Range), showRange(s.SelectionRange), s.Kind))
	}
	sort.Strings(out)
	return out
}

// ---- C18 ----

func propC18() *fw.Prop {
	return &fw.Prop{
		ID: "C18", Level: "exploration",
		Rule:            "texts = the C14 family (grammar-complete scripts under layouts; every prefix; token deletions / insertions / duplications / swaps; byte damage incl. non-ASCII and invalid UTF-8; unbalanced brackets; missing names and types; token soups). For each text: analysis.CheckSource twice, GetSymbols, and HoverOn + GotoDefinition at EVERY cursor position of the text plus positions just outside it (long documents — up to 2500 declarations, 1000+ diagnostics, + / − chains of 2..200 operands — are probed at every k-th position), all under a crash guard and a 60 s watchdog; every diagnostic must start inside the document or at its end and not end before it starts; the two analyses must give the same set of diagnostics and of symbols. Also: 21 portion texts (zero numerators and / or zero denominators in several spellings) in 21 frames covering every position a portion can be written. Distinct = texts that produce ≥ 1 parser error (exercise recovery).",
		Assumptions:     []string{trustedBase, "termination restated as bounded progress (60 s per text ≤ 64 KiB)"},
		Require:         []string{"texts_with_parser_errors", "positions_probed", "diagnostics_located", "prefix_texts", "symbols_compared", "long_documents"},
		HangIsViolation: true,
		Run:             runC18,
	}
}

// the previous analysis result of this worker process, re-examined after the next one
var (
	probeStride = 1 // cursor positions probed: every probeStride-th (1 = all)
	keptText    string
	keptResult  analysis.CheckResult
	keptDiags   string
)

func checkEditorText(c *fw.Ctx, text, origin string) bool {
	input := func() any { return map[string]any{"text": text, "origin": origin} }
	var r1, r2 analysis.CheckResult
	if !c.Guard("analysis.CheckSource", input, func() { r1 = analysis.CheckSource(text) }) {
		return false
	}
	if !c.Guard("analysis.CheckSource", input, func() { r2 = analysis.CheckSource(text) }) {
		return false
	}
	c.Eval()
	var s1, s2 []analysis.DocumentSymbol
	if !c.Guard("CheckResult.GetSymbols", input, func() { s1 = r1.GetSymbols(); s2 = r2.GetSymbols() }) {
		return false
	}
	var d1, d2 []string
	if !c.Guard("Diagnostic.Message", input, func() { d1, d2 = diagSet(r1.Diagnostics), diagSet(r2.Diagnostics) }) {
		return false
	}
	if strings.Join(d1, "\n") != strings.Join(d2, "\n") {
		c.Violation("diagnostics-differ", fmt.Sprintf("two analyses of the same text differ: %v ⏎ vs ⏎ %v", d1, d2), input())
		return false
	}
	// a result handed out for an earlier text must still be what it was
	if keptText != "" {
		var now []string
		if !c.Guard("Diagnostic.Message(kept)", func() any { return map[string]any{"text": keptText} }, func() { now = diagSet(keptResult.Diagnostics) }) {
			return false
		}
		if strings.Join(now, "\n") != keptDiags {
			c.Violation("earlier-result-changed", fmt.Sprintf("the diagnostics returned for an earlier text changed after later analyses: were %q, are now %q", keptDiags, strings.Join(now, "\n")),
				map[string]any{"earlier_text": keptText, "later_text": text})
			return false
		}
		c.Count("kept_results_rechecked", 1)
	}
	keptText, keptResult, keptDiags = text, r1, strings.Join(d1, "\n")
	y1, y2 := symbolSet(s1), symbolSet(s2)
	c.Count("symbols_compared", len(y1))
	if strings.Join(y1, "\n") != strings.Join(y2, "\n") {
		c.Violation("symbols-differ", fmt.Sprintf("two analyses of the same text list different symbols: %v ⏎ vs ⏎ %v", y1, y2), input())
		return false
	}
	lines := gen.LineTable(text)
	hasParse := false
	for _, d := range r1.Diagnostics {
		c.Count("diagnostics_located", 1)
		if diagKind(d) == "Parsing" {
			hasParse = true
		}
		s, e := d.Range.Start, d.Range.End
		if s.Line < 0 || s.Line >= len(lines) || s.Character < 0 || s.Character > lines[s.Line] {
			c.Violation("diagnostic-outside-document", fmt.Sprintf("%s diagnostic at %s starts outside the document (%d lines)", diagKind(d), showRange(d.Range), len(lines)), input())
			return false
		}
		if e.Line < s.Line || (e.Line == s.Line && e.Character < s.Character) {
			c.Violation("diagnostic-ends-before-start", fmt.Sprintf("%s diagnostic at %s ends before it starts", diagKind(d), showRange(d.Range)), input())
			return false
		}
	}
	if hasParse {
		c.Count("texts_with_parser_errors", 1)
		c.Distinct(text)
	}
	// every cursor position, plus just outside
	probe := func(l, ch int) bool {
		pos := parser.Position{Line: l, Character: ch}
		in2 := func() any { return map[string]any{"text": text, "origin": origin, "line": l, "character": ch} }
		if !c.Guard("analysis.HoverOn", in2, func() { analysis.HoverOn(r1.Program, pos) }) {
			return false
		}
		if !c.Guard("analysis.GotoDefinition", in2, func() { analysis.GotoDefinition(r1.Program, pos, r1) }) {
			return false
		}
		c.Count("positions_probed", 1)
		return true
	}
	for l, n := range lines {
		for ch := 0; ch <= n+1; ch++ {
			if probeStride > 1 && (l*31+ch)%probeStride != 0 {
				continue
			}
			if !probe(l, ch) {
				return false
			}
		}
	}
	for _, p := range [][2]int{{len(lines), 0}, {len(lines) + 3, 7}, {-1, 0}, {0, -1}, {0, 1 << 20}} {
		if !probe(p[0], p[1]) {
			return false
		}
	}
	return true
}

func runC18(c *fw.Ctx) {
	corpus := []string{
		"vars { number = balance(@a, USD) }", "vars { $x }", "vars { monetary }", "vars { monetary $x = }", "vars { monetary $x = balance( }",
		"send [USD 10] (source = { 1/0 from @a remaining from @b } destination = @c)", "send [USD *] (source = destination = )",
		"send (source = @a destination = @b)", "send [USD 1] (source = { max from @a } destination = { max to @b remaining })",
		"save from", "foo(", "set_tx_meta(,)", "send [USD 1] (source = { from @a } destination = { to @b })", "",
		"vars { portion $p } send [USD 1] (source = { $p from } destination = { $p })",
		"send [USD] (source = @a destination = @b)", "send [USD 1] (source = 1 + destination = @b)", "set_tx_meta(\"k\", [USD] + 1)",
		"send [USD 1] (source = @a allowing overdraft up to destination = @b)", "send [ * ] (source = @a destination = @b)",
		"vars { monetary $x = (@a) }", "vars { monetary $x = balance }", "send [USD 1] (source = { 1/ from @a } destination = @b)",
		"send [USD 1] (source = max from @a destination = { % to @b })", "save [USD ] from", "send + (source = - destination = +)",
	}
	for i, t := range corpus {
		if c.Want(i, "corpus/"+itoa(i)) {
			if !checkEditorText(c, t, "corpus") {
				return
			}
		}
	}
	// portion literals with a zero numerator and / or a zero denominator, at every position a portion
	// (or any value) can be written — the texts a user passes through while typing 1/05 or 0/05
	portionTexts := []string{"0/0", "1/0", "00/0", "0/00", "0 / 0", "0/ 0", "0 /0", "7/000", "0/3", "0/1", "0%", "0.0%", "00%", "100%", "1/1", "3/2", "150%",
		"100000000000000000000/0", "0/100000000000000000000", "0/0000000000000000000000", "000/000"}
	portionFrames := []string{
		"send [USD 10] (source = { %s from @a remaining from @b } destination = @c)",
		"send [USD 10] (source = { 1/2 from @a %s from @b remaining from @c } destination = @d)",
		"send [USD 10] (source = @a destination = { %s to @b remaining to @c })",
		"send [USD 10] (source = @a destination = { %s to @b remaining kept })",
		"send [USD 10] (source = @a destination = { 1/2 to @b %s to @c })",
		"send [USD 10] (source = @a destination = { %s to @b %s to @c })",
		"send [USD *] (source = { %s from @a remaining from @b } destination = @c)",
		"send [USD 10] (source = { max [USD 5] from { %s from @a remaining from @b } @c } destination = @d)",
		"send [USD 10] (source = @a destination = { max [USD 5] to { %s to @b remaining to @c } remaining to @d })",
		"send [USD 10] (source = @a destination = { %s to { %s to @b remaining kept } remaining to @c })",
		"set_tx_meta(\"k\", %s)", "set_account_meta(@a, \"k\", %s)", "send %s (source = @a destination = @b)",
		"send [USD %s] (source = @a destination = @b)", "send [USD 10] (source = max %s from @a destination = @b)",
		"send [USD 10] (source = @a allowing overdraft up to %s destination = @b)", "save %s from @a",
		"vars { portion $p = %s } send [USD 1] (source = @a destination = { $p to @b remaining kept })",
		"vars { portion $p } send [USD 1] (source = { $p from @a %s from @b } destination = @c)",
		"send [USD 10] (source = @a destination = { %s + %s to @b remaining kept })", "set_tx_meta(\"k\", %s - %s)",
	}
	for fi, frame := range portionFrames {
		for ti, t := range portionTexts {
			if !c.Want(500+fi*len(portionTexts)+ti, "portion/"+itoa(fi)+"/"+itoa(ti)) {
				continue
			}
			c.Count("portion_position_texts", 1)
			if !checkEditorText(c, strings.ReplaceAll(frame, "%s", t), "portion-position") {
				return
			}
		}
	}
	n := c.N(300, 5000)
	for i := 0; i < n; i++ {
		id := "syn/" + itoa(i)
		if !c.Want(1000+i, id) {
			continue
		}
		r := c.Rng(id)
		sc := gen.GenSyn(r, gen.SynCfg{Depth: r.Range(1, 3), MaxStmts: 3, NonASCII: true, BigNums: true, Executable: r.Bool()})
		pr := gen.Print(sc, gen.Layout{Kind: r.Intn(gen.NumLayouts), R: r})
		if !checkEditorText(c, pr.Text, "generated") {
			return
		}
		canon := gen.PrintCanonical(sc)
		// every prefix of the canonical text (the states a user types through)
		for off := 0; off < len(canon.Text); off++ {
			c.Count("prefix_texts", 1)
			if !checkEditorText(c, canon.Text[:off], "prefix") {
				return
			}
		}
		toks := canon.TokText
		if len(toks) == 0 {
			continue
		}
		for k := 0; k < 10; k++ {
			if !checkEditorText(c, gen.MutateTokens(r, toks), "token-mutant") {
				return
			}
			if !checkEditorText(c, gen.MutateBytes(r, pr.Text), "byte-mutant") {
				return
			}
		}
		for k := 0; k < 4; k++ {
			if !checkEditorText(c, gen.Unbalance(r, toks), "unbalanced") {
				return
			}
			if !checkEditorText(c, gen.DropNames(r, toks), "dropped-name") {
				return
			}
		}
		if c.WantSample() && i%19 == 2 {
			c.Sample(map[string]any{"case": id, "text": pr.Text, "prefixes": len(canon.Text), "a_mutant": gen.DropNames(r, toks)})
		}
	}
	// numerals of 1..60 digits in every numeric position (literal conversions run inside CheckSource)
	lengths := []int{100, 255, 256, 999, 1000, 1001, 1002, 1500, 5000, 20000}
	for d := 1; d <= 60; d++ {
		lengths = append(lengths, d)
	}
	for _, d := range lengths {
		id := "numeral/" + itoa(d)
		if !c.Want(2_000_000+d, id) {
			continue
		}
		r := c.Rng(id)
		reps := 4
		probeStride = 1
		if d > 60 {
			// a single very long token: every k-th position is probed
			reps, probeStride = 1, 1+d/40
		}
		for k := 0; k < reps; k++ {
			digits := make([]byte, d)
			for i := range digits {
				digits[i] = byte('0' + r.Intn(10))
			}
			ds := string(digits)
			for _, t := range []string{
				"send [USD " + ds + "] (source = @a destination = @b)",
				"send [USD -" + ds + "] (source = @a destination = @b)",
				"send [USD 1] (source = @a destination = { " + ds + "/" + ds + " to @b remaining kept })",
				"send [USD 1] (source = @a destination = { " + ds + " / " + ds + " to @b remaining kept })",
				"send [USD 1] (source = @a destination = { 1/ " + ds + " to @b " + ds + " /" + ds + " kept remaining kept })",
				"send [USD 1] (source = @a destination = { 0." + ds + "% to @b remaining kept })",
				"send [USD 1] (source = { " + ds + "% from @a remaining from @b } destination = @c)",
				"set_tx_meta(\"k\", " + ds + " + " + ds + ")",
				"vars { portion $p } send [USD 1] (source = @a destination = { $p to @b " + ds + "." + ds + "% kept })",
			} {
				c.Count("numeral_texts", 1)
				if !checkEditorText(c, t, "numeral") {
					return
				}
			}
		}
		probeStride = 1
	}
	// calls of the built-in functions with 0..5 arguments, each a value, a hole or a stray token
	{
		argAlphabet := []string{"1", "\"k\"", "@a", "", "to", "$x", "USD"}
		fns := []string{"set_tx_meta", "set_account_meta", "meta", "balance", "overdraft"}
		na := len(argAlphabet)
		idx := 0
		for fi, fn := range fns {
			for l := 0; l <= 5; l++ {
				total := 1
				for i := 0; i < l; i++ {
					total *= na
				}
				for k := 0; k < total; k++ {
					idx++
					if c.Quick && l == 5 && k%6 != fi {
						continue
					}
					id := fmt.Sprintf("callargs/%s/%d/%d", fn, l, k)
					if !c.Want(2_200_000+idx, id) {
						continue
					}
					args := make([]string, l)
					x := k
					for i := range args {
						args[i] = argAlphabet[x%na]
						x /= na
					}
					call := fn + "(" + strings.Join(args, ", ") + ")"
					var t string
					if fn == "set_tx_meta" || fn == "set_account_meta" {
						t = "vars { monetary $x }\n" + call
					} else {
						t = "vars { monetary $x monetary $y = " + call + " }\nsend $y (source = @a destination = @b)"
					}
					c.Count("call_argument_texts", 1)
					if !checkEditorText(c, t, "call-arguments") {
						return
					}
				}
			}
		}
	}
	// declarations that only feed one another through their origins (chains of 2..8), with and
	// without a statement that uses the last one
	for n := 2; n <= 8; n++ {
		for used := 0; used < 2; used++ {
			id := fmt.Sprintf("origin-chain/%d/%d", n, used)
			if !c.Want(2_450_000+n*2+used, id) {
				continue
			}
			var b strings.Builder
			b.WriteString("vars {\n  account $v0\n")
			for k := 1; k < n; k++ {
				fmt.Fprintf(&b, "  account $v%d = meta($v%d, \"k\")\n", k, k-1)
			}
			b.WriteString("}\n")
			if used == 1 {
				fmt.Fprintf(&b, "set_tx_meta(\"k\", $v%d)\n", n-1)
			}
			for rep := 0; rep < 40; rep++ {
				c.Count("origin_chain_texts", 1)
				if !checkEditorText(c, b.String(), "origin-chain") {
					return
				}
			}
		}
	}
	// function names that are not built in, at every distance from the ones that are
	{
		names := []string{"set_tx_met", "set_tx_metaa", "set_txmeta", "set_meta", "set_acc_meta", "set_acca_meta", "set_account_met", "set_acount_meta",
			"set_tx_account_meta", "set_x_meta", "metaa", "mta", "balanc", "balances", "overdraf", "overdrafts", "over_draft", "bal_meta", "meta_balance", "x", "set", "_", "send_", "save_all"}
		for ni, name := range names {
			id := "unknown-function/" + name
			if !c.Want(2_400_000+ni, id) {
				continue
			}
			for _, t := range []string{
				name + "(\"k\", 1)",
				name + "(@a, \"k\", 1)",
				"vars { monetary $m = " + name + "(@a, USD) }\nsend $m (source = @a destination = @b)",
				name + "()\n" + name + "(1)",
			} {
				for rep := 0; rep < 12; rep++ {
					c.Count("unknown_function_texts", 1)
					if !checkEditorText(c, t, "unknown-function") {
						return
					}
				}
			}
		}
	}
	// near-miss names: undeclared variables close to several declared ones
	for i := 0; i < c.N(300, 6000); i++ {
		id := "names/" + itoa(i)
		if !c.Want(2_500_000+i, id) {
			continue
		}
		r := c.Rng(id)
		pool := []string{"fee", "fee1", "fee2", "fees", "source_a", "source_b", "source", "amount", "amounts", "amount_a", "amount_b", "acc", "acc1", "acc2"}
		var decl []string
		for k := r.Range(2, 5); k > 0; k-- {
			decl = append(decl, "monetary $"+rng.PickOf(r, pool))
		}
		var uses []string
		for k := r.Range(1, 4); k > 0; k-- {
			uses = append(uses, "send $"+rng.PickOf(r, pool)+" (source = @a destination = @b)")
		}
		t := "vars { " + strings.Join(decl, " ") + " }\n" + strings.Join(uses, "\n")
		for rep := 0; rep < 6; rep++ {
			if !checkEditorText(c, t, "near-miss-names") {
				return
			}
		}
	}
	// long documents: many declarations, many diagnostics, long operator chains
	bulk := func(idx int, id string, mk func(r *rng.R) string) bool {
		if !c.Want(2_800_000+idx, id) {
			return true
		}
		t := mk(c.Rng(id))
		probeStride = 1 + len(t)/200
		defer func() { probeStride = 1 }()
		c.Count("long_documents", 1)
		for rep := 0; rep < 3; rep++ {
			if !checkEditorText(c, t, "long-document") {
				return false
			}
		}
		return true
	}
	types := []string{"monetary", "account", "number", "string", "asset", "portion"}
	for k, nv := range []int{2, 10, 100, 249, 250, 251, 300, 999, 1000, 1001, 1100, 2500} {
		for variant := 0; variant < 3; variant++ {
			nv, variant := nv, variant
			if !bulk(k*10+variant, fmt.Sprintf("bulk/unused/%d/%d", nv, variant), func(r *rng.R) string {
				var b strings.Builder
				b.WriteString("vars {\n")
				for j := 0; j < nv; j++ {
					fmt.Fprintf(&b, "  %s $v%d\n", types[(j+variant)%len(types)], j)
				}
				b.WriteString("}\n")
				switch variant {
				case 1: // warnings and an error come first
					for j := 0; j < nv/2; j++ {
						b.WriteString("send [USD 1] (source = {@world @a} destination = @b)\n")
					}
					b.WriteString("send [USD 1] (source = $undeclared destination = @b)\n")
				case 2: // some of the variables are used
					for j := 0; j < nv; j += 7 {
						fmt.Fprintf(&b, "set_tx_meta(\"k%d\", $v%d)\n", j, j)
					}
				}
				return b.String()
			}) {
				return
			}
		}
	}
	for nops := 2; nops <= 200; nops++ {
		if c.Quick && nops > 48 && nops%8 != 0 {
			continue
		}
		for variant := 0; variant < 4; variant++ {
			nops, variant := nops, variant
			if !bulk(1000+nops*4+variant, fmt.Sprintf("bulk/chain/%d/%d", nops, variant), func(r *rng.R) string {
				operand := []string{"1", "[USD 1]", "$n", "$m"}[variant]
				op := " + "
				if nops%2 == 1 {
					op = " - "
				}
				chain := strings.TrimSuffix(strings.Repeat(operand+op, nops), op)
				pre := "vars { number $n monetary $m }\n"
				switch variant {
				case 0, 2:
					return pre + "set_tx_meta(\"k\", " + chain + ")\nsend [USD " + chain + "] (source = @a destination = @b)\nset_tx_meta(\"m\", $m)"
				default:
					return pre + "send " + chain + " (source = @a destination = @b)\nset_tx_meta(\"n\", $n)\nset_tx_meta(\"k\", " + chain + ")"
				}
			}) {
				return
			}
		}
	}
	n = c.N(40000, 800000)
	for i := 0; i < n; i++ {
		id := "soup/" + itoa(i)
		if !c.Want(3_000_000+i, id) {
			continue
		}
		if !checkEditorText(c, gen.Soup(c.Rng(id), 12), "soup") {
			return
		}
	}
}

var _ = rng.New
