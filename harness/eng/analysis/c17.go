package main

import (
	"fmt"
	"math/big"

	"github.com/formancehq/numscript/internal/analysis"
	"github.com/formancehq/numscript/verifharness/fw"
	"github.com/formancehq/numscript/verifharness/gen"
	"github.com/formancehq/numscript/verifharness/model"
	"github.com/formancehq/numscript/verifharness/real"
	"github.com/formancehq/numscript/verifharness/rng"
)

func propC17() *fw.Prop {
	return &fw.Prop{
		ID: "C17", Level: "exploration",
		Rule:        "implication monitor over (check, run) pairs of the SAME text: well-typed generated scripts (which check clean and run successfully on generous balances — the control) receive one type-breaking edit (literal of another type in any typed position incl. inside monetary literals and + / − operands, mis-declared variable with a value of its new declared type, a declared variable written in a later position of another type, the edited script placed after 249..1001 warning-drawing statements, removed declaration, wrong arity, unknown or misplaced function, allotment / unbounded / @world source under send-all, ill-typed arithmetic) and are then checked and executed with values of the declared types. Violation: no error-severity diagnostic but the run fails with a type error, unbound variable/function, bad arity or unknown type; or no diagnostic at all but the run fails on the shape of a send-all source. Distinct = (edit kind, position class, checker silent / not). Added later: an origin function whose return type is not the declared type (balance / overdraft with its flag) used as declared; literals of every magnitude; ill-typed + and − in any-typed slots.",
		Assumptions: []string{trustedBase},
		Require:     []string{"edits_checked", "edits_flagged_by_checker", "edits_checker_silent", "edits_failing_statically_at_run_time", "edit_infix", "edit_origin-forward-reference", "edit_declared-variable-in-wrong-slot", "edits_after_many_warnings"},
		Run:         runC17,
	}
}

var staticClasses = map[string]bool{model.EType: true, model.EUnboundVar: true, model.EUnboundFn: true, model.EArity: true, model.EInvalidType: true}
var shapeClasses = map[string]bool{model.EUnboundedAll: true, model.EAllotmentAll: true}

type slot struct {
	get   func() gen.Expr
	set   func(gen.Expr)
	want  string // required type ("any" = unconstrained, "arith" = number or monetary)
	where string
}

func exprSlots(sc *gen.Script) []slot {
	var out []slot
	var add func(get func() gen.Expr, set func(gen.Expr), want, where string)
	add = func(get func() gen.Expr, set func(gen.Expr), want, where string) {
		out = append(out, slot{get, set, want, where})
		switch e := get().(type) {
		case *gen.Mon:
			add(func() gen.Expr { return e.Asset }, func(x gen.Expr) { e.Asset = x }, "asset", where+">mon.asset")
			add(func() gen.Expr { return e.Amount }, func(x gen.Expr) { e.Amount = x }, "number", where+">mon.amount")
		case *gen.Infix:
			w := want
			if w == "any" {
				w = "arith"
			}
			add(func() gen.Expr { return e.L }, func(x gen.Expr) { e.L = x }, w, where+">infix.left")
			add(func() gen.Expr { return e.R }, func(x gen.Expr) { e.R = x }, w, where+">infix.right")
		}
	}
	var src func(s gen.Source, where string)
	src = func(s gen.Source, where string) {
		switch s := s.(type) {
		case *gen.SrcAccount:
			add(func() gen.Expr { return s.E }, func(x gen.Expr) { s.E = x }, "account", where+">account")
		case *gen.SrcOverdraft:
			add(func() gen.Expr { return s.Addr }, func(x gen.Expr) { s.Addr = x }, "account", where+">overdraft.address")
			if s.Bounded != nil {
				add(func() gen.Expr { return s.Bounded }, func(x gen.Expr) { s.Bounded = x }, "monetary", where+">overdraft.bound")
			}
		case *gen.SrcInorder:
			for _, x := range s.Srcs {
				src(x, where)
			}
		case *gen.SrcAllot:
			for _, it := range s.Items {
				src(it.From, where+">allot")
			}
		case *gen.SrcCapped:
			add(func() gen.Expr { return s.Cap }, func(x gen.Expr) { s.Cap = x }, "monetary", where+">cap")
			src(s.From, where+">capped")
		}
	}
	var dst func(d gen.Dest, where string)
	kod := func(k *gen.KOD, where string) {
		if k != nil && !k.Kept {
			dst(k.To, where)
		}
	}
	dst = func(d gen.Dest, where string) {
		switch d := d.(type) {
		case *gen.DstAccount:
			add(func() gen.Expr { return d.E }, func(x gen.Expr) { d.E = x }, "account", where+">account")
		case *gen.DstInorder:
			for _, cl := range d.Clauses {
				cl := cl
				add(func() gen.Expr { return cl.Cap }, func(x gen.Expr) { cl.Cap = x }, "monetary", where+">cap")
				kod(cl.To, where+">inorder")
			}
			kod(d.Remaining, where+">remaining")
		case *gen.DstAllot:
			for _, it := range d.Items {
				kod(it.To, where+">allot")
			}
		}
	}
	sigs := map[string][]string{"set_tx_meta": {"string", "any"}, "set_account_meta": {"account", "string", "any"},
		"meta": {"account", "string"}, "balance": {"account", "asset"}, "overdraft": {"account", "asset"}}
	call := func(cl *gen.Call, where string) {
		for i := range cl.Args {
			i := i
			w := "any"
			if s, ok := sigs[cl.Name]; ok && i < len(s) {
				w = s[i]
			}
			add(func() gen.Expr { return cl.Args[i] }, func(x gen.Expr) { cl.Args[i] = x }, w, where+".arg")
		}
	}
	for _, d := range sc.Vars {
		if d.Origin != nil {
			call(d.Origin, "origin")
		}
	}
	for _, st := range sc.Stmts {
		switch st := st.(type) {
		case *gen.Send:
			w := "monetary"
			if st.Sent.All {
				w = "asset"
			}
			add(func() gen.Expr { return st.Sent.E }, func(x gen.Expr) { st.Sent.E = x }, w, "send.sent")
			src(st.Src, "send.source")
			dst(st.Dst, "send.destination")
		case *gen.Save:
			w := "monetary"
			if st.Sent.All {
				w = "asset"
			}
			add(func() gen.Expr { return st.Sent.E }, func(x gen.Expr) { st.Sent.E = x }, w, "save.sent")
			add(func() gen.Expr { return st.From }, func(x gen.Expr) { st.From = x }, "account", "save.from")
		case *gen.Call:
			call(st, "call")
		}
	}
	return out
}

// fixAsset rewrites the asset of every literal cap in a source tree.
func fixAsset(s gen.Source, asset string) {
	switch s := s.(type) {
	case *gen.SrcCapped:
		if m, ok := s.Cap.(*gen.Mon); ok {
			m.Asset = gen.As(asset)
		}
		fixAsset(s.From, asset)
	case *gen.SrcInorder:
		for _, x := range s.Srcs {
			fixAsset(x, asset)
		}
	case *gen.SrcAllot:
		for _, it := range s.Items {
			fixAsset(it.From, asset)
		}
	}
}

func litOfType(r *rng.R, t string) gen.Expr {
	switch t {
	case "number":
		if r.Chance(1, 4) {
			// literals of every magnitude: beyond 2^63 the parser builds another kind of node
			return gen.N(r.Pick("9223372036854775807", "9223372036854775808", "-9223372036854775809", "18446744073709551616", "340282366920938463463374607431768211456", "007"))
		}
		return gen.N(itoa(r.Intn(50)))
	case "string":
		return gen.S("str")
	case "asset":
		return gen.As("USD")
	case "account":
		return gen.A(r.Pick("a", "b"))
	case "monetary":
		if r.Chance(1, 5) {
			return gen.M("USD", r.Pick("9223372036854775808", "18446744073709551616"))
		}
		return gen.M("USD", itoa(r.Intn(20)))
	default:
		return &gen.Ratio{Text: "1/2"}
	}
}

var sixTypes = []string{"number", "string", "asset", "account", "monetary", "portion"}

func otherType(r *rng.R, not string) string {
	for {
		t := sixTypes[r.Intn(6)]
		if t == not {
			continue
		}
		if not == "arith" && (t == "number" || t == "monetary") {
			continue
		}
		return t
	}
}

func goodValue(r *rng.R, t string) string {
	switch t {
	case "number":
		return itoa(r.Intn(50))
	case "monetary":
		return "USD " + itoa(r.Intn(20))
	case "portion":
		return "1/2"
	case "account":
		return r.Pick("a", "b")
	case "asset":
		return "USD"
	}
	return "text"
}

// typeEdit applies one type-breaking edit in place.
func typeEdit(r *rng.R, cs *gen.Case) (kind, where string) {
	sc := cs.Script
	for attempt := 0; attempt < 10; attempt++ {
		switch r.Intn(18) {
		case 16, 17: // a variable whose declared type is not what its origin function returns, used as declared
			fn := r.Pick("balance", "overdraft", "overdraft")
			if fn == "overdraft" {
				cs.Flags["experimental-overdraft-function"] = true
			}
			t := r.Pick("number", "account", "string", "asset", "portion")
			name := "misdeclared_origin"
			d := &gen.VarDecl{Type: t, Name: name, Origin: &gen.Call{Name: fn, Args: []gen.Expr{gen.A("a"), gen.As("USD")}}}
			pos := r.Intn(len(sc.Vars) + 1)
			sc.Vars = append(sc.Vars[:pos:pos], append([]*gen.VarDecl{d}, sc.Vars[pos:]...)...)
			var use gen.Stmt
			switch t {
			case "number":
				use = &gen.Send{Sent: &gen.SentValue{E: &gen.Mon{Asset: gen.As("USD"), Amount: gen.V(name)}}, Src: gen.SA("world"), Dst: gen.DA("sink")}
			case "account":
				use = &gen.Send{Sent: &gen.SentValue{E: gen.M("USD", "1")}, Src: gen.SA("world"), Dst: &gen.DstAccount{E: gen.V(name)}}
			case "asset":
				use = &gen.Send{Sent: &gen.SentValue{E: &gen.Mon{Asset: gen.V(name), Amount: gen.N("1")}}, Src: gen.SA("world"), Dst: gen.DA("sink")}
			case "portion":
				use = &gen.Send{Sent: &gen.SentValue{E: gen.M("USD", "10")}, Src: gen.SA("world"), Dst: &gen.DstAllot{Items: []*gen.DstAllotItem{{A: &gen.AllotVar{V: gen.V(name)}, To: gen.To(gen.DA("sink"))}, {A: &gen.AllotRemaining{}, To: &gen.KOD{Kept: true}}}}}
			default:
				use = &gen.Call{Name: "set_account_meta", Args: []gen.Expr{gen.A("sink"), gen.V(name), gen.N("1")}}
			}
			sc.Stmts = append(sc.Stmts, use)
			return "origin-return-type:" + fn, "origin"
		case 14, 15: // a declared variable written where another type is required (its other uses stay right)
			if len(sc.Vars) == 0 {
				continue
			}
			d := sc.Vars[r.Intn(len(sc.Vars))]
			var cands []slot
			for _, s := range exprSlots(sc) {
				if s.want != "any" && s.want != d.Type {
					if v, isVar := s.get().(*gen.Var); isVar && v.Name == d.Name {
						continue
					}
					cands = append(cands, s)
				}
			}
			if len(cands) == 0 {
				continue
			}
			// mostly a late slot, so that correctly typed uses of the variable come first
			s := cands[len(cands)-1-r.Intn((len(cands)+1)/2)]
			s.set(gen.V(d.Name))
			return "declared-variable-in-wrong-slot", s.where
		case 12, 13: // unknown declared type, on a plain or on a metadata-backed variable
			var plain []*gen.VarDecl
			for _, d := range sc.Vars {
				if d.Origin == nil {
					plain = append(plain, d)
				}
			}
			if len(plain) == 0 {
				continue
			}
			d := plain[r.Intn(len(plain))]
			where := "vars"
			if r.Bool() {
				// read the same text from the store's metadata (which does hold it)
				d.Origin = &gen.Call{Name: "meta", Args: []gen.Expr{gen.A("cfg"), gen.S("key_" + d.Name)}}
				if cs.Meta["cfg"] == nil {
					cs.Meta["cfg"] = map[string]string{}
				}
				cs.Meta["cfg"]["key_"+d.Name] = cs.Vars[d.Name]
				delete(cs.Vars, d.Name)
				where = "vars>meta-origin"
			}
			d.Type = r.Pick("nonsense", "int", "accounts", "money")
			return "unknown-type", where
		case 10, 11: // a variable origin that refers to a declaration that comes later, or to itself
			var accts []int
			for i, d := range sc.Vars {
				if d.Type == "account" && d.Origin == nil {
					accts = append(accts, i)
				}
			}
			if len(accts) == 0 || r.Chance(1, 3) {
				// self reference
				sc.Vars = append(sc.Vars, &gen.VarDecl{Type: "account", Name: "selfref", Origin: &gen.Call{Name: "meta", Args: []gen.Expr{gen.V("selfref"), gen.S("k")}}})
				sc.Stmts = append(sc.Stmts, &gen.Call{Name: "set_tx_meta", Args: []gen.Expr{gen.S("s"), gen.V("selfref")}})
				return "origin-self-reference", "origin"
			}
			j := accts[r.Intn(len(accts))]
			nd := &gen.VarDecl{Type: "monetary", Name: "fwd", Origin: &gen.Call{Name: "balance", Args: []gen.Expr{gen.V(sc.Vars[j].Name), gen.As("USD")}}}
			pos := r.Intn(j + 1)
			nv := append([]*gen.VarDecl{}, sc.Vars[:pos]...)
			nv = append(nv, nd)
			sc.Vars = append(nv, sc.Vars[pos:]...)
			sc.Stmts = append(sc.Stmts, &gen.Call{Name: "set_tx_meta", Args: []gen.Expr{gen.S("f"), gen.V("fwd")}})
			return "origin-forward-reference", "origin"
		case 0, 1, 2: // literal of another type
			sl := exprSlots(sc)
			if len(sl) == 0 {
				continue
			}
			s := sl[r.Intn(len(sl))]
			if s.want == "any" {
				continue
			}
			s.set(litOfType(r, otherType(r, s.want)))
			return "literal-of-another-type", s.where
		case 3: // mis-declared variable (value follows the new declared type)
			var plain []*gen.VarDecl
			for _, d := range sc.Vars {
				if d.Origin == nil {
					plain = append(plain, d)
				}
			}
			if len(plain) == 0 {
				continue
			}
			d := plain[r.Intn(len(plain))]
			nt := otherType(r, d.Type)
			d.Type = nt
			cs.Vars[d.Name] = goodValue(r, nt)
			return "mis-declared-variable", "vars"
		case 4: // removed declaration
			if len(sc.Vars) == 0 {
				continue
			}
			i := r.Intn(len(sc.Vars))
			sc.Vars = append(sc.Vars[:i:i], sc.Vars[i+1:]...)
			return "removed-declaration", "vars"
		case 5: // arity
			var calls []*gen.Call
			for _, d := range sc.Vars {
				if d.Origin != nil {
					calls = append(calls, d.Origin)
				}
			}
			for _, st := range sc.Stmts {
				if cl, ok := st.(*gen.Call); ok {
					calls = append(calls, cl)
				}
			}
			if len(calls) == 0 {
				pos := r.Intn(len(sc.Stmts) + 1)
				cl := &gen.Call{Name: "set_tx_meta", Args: []gen.Expr{gen.S("k")}}
				sc.Stmts = append(sc.Stmts[:pos:pos], append([]gen.Stmt{cl}, sc.Stmts[pos:]...)...)
				return "arity", "call"
			}
			cl := calls[r.Intn(len(calls))]
			if len(cl.Args) > 0 && r.Bool() {
				cl.Args = cl.Args[:len(cl.Args)-1]
			} else {
				cl.Args = append(cl.Args, gen.N("1"))
			}
			return "arity", "call"
		case 6: // unknown / misplaced function
			pos := r.Intn(len(sc.Stmts) + 1)
			var cl *gen.Call
			switch r.Intn(3) {
			case 0:
				cl = &gen.Call{Name: "frobnicate", Args: []gen.Expr{gen.N("1")}}
			case 1:
				cl = &gen.Call{Name: "balance", Args: []gen.Expr{gen.A("a"), gen.As("USD")}}
			default:
				cl = &gen.Call{Name: "meta", Args: []gen.Expr{gen.A("a"), gen.S("k")}}
			}
			if r.Chance(1, 3) {
				sc.Vars = append(sc.Vars, &gen.VarDecl{Type: "monetary", Name: "fromfn", Origin: &gen.Call{Name: r.Pick("set_tx_meta", "nope"), Args: []gen.Expr{gen.S("k"), gen.N("1")}}})
				return "misplaced-function", "origin"
			}
			sc.Stmts = append(sc.Stmts[:pos:pos], append([]gen.Stmt{cl}, sc.Stmts[pos:]...)...)
			return "unknown-function", "call"
		case 7: // send-all source shape
			var alls []*gen.Send
			for _, st := range sc.Stmts {
				if sd, ok := st.(*gen.Send); ok && sd.Sent.All {
					alls = append(alls, sd)
				}
			}
			if len(alls) == 0 {
				continue
			}
			sd := alls[r.Intn(len(alls))]
			if r.Bool() {
				// the forbidden source comes after (or before) a sibling with nested caps
				var forbidden gen.Source
				switch r.Intn(3) {
				case 0:
					forbidden = &gen.SrcAllot{Items: []*gen.SrcAllotItem{{A: &gen.AllotLit{Lit: &gen.Ratio{Text: "1/2"}}, From: gen.SA("a")}, {A: &gen.AllotRemaining{}, From: gen.SA("b")}}}
				case 1:
					forbidden = &gen.SrcOverdraft{Addr: gen.A("a")}
				default:
					forbidden = gen.SA("world")
				}
				var capped gen.Source
				switch r.Intn(4) {
				case 0:
					capped = &gen.SrcCapped{Cap: gen.M("USD", "5"), From: gen.SA("b")}
				case 1:
					capped = &gen.SrcCapped{Cap: gen.M("USD", "9"), From: &gen.SrcCapped{Cap: gen.M("USD", "5"), From: gen.SA("b")}}
				case 2:
					capped = &gen.SrcCapped{Cap: gen.M("USD", "9"), From: &gen.SrcAllot{Items: []*gen.SrcAllotItem{{A: &gen.AllotLit{Lit: &gen.Ratio{Text: "1/3"}}, From: gen.SA("b")}, {A: &gen.AllotRemaining{}, From: gen.SA("world")}}}}
				default:
					capped = &gen.SrcInorder{Srcs: []gen.Source{gen.SA("b"), &gen.SrcCapped{Cap: gen.M("USD", "4"), From: &gen.SrcCapped{Cap: gen.M("USD", "3"), From: gen.SA("world")}}}}
				}
				// the asset of the caps must be the statement's: reuse its asset expression when literal
				if as, ok := sd.Sent.E.(*gen.Asset); ok {
					fixAsset(capped, as.Name)
				}
				if r.Chance(3, 4) {
					sd.Src = &gen.SrcInorder{Srcs: []gen.Source{capped, forbidden}}
				} else {
					sd.Src = &gen.SrcInorder{Srcs: []gen.Source{forbidden, capped}}
				}
				return "send-all-shape", "send.source>after-nested-caps"
			}
			switch r.Intn(5) {
			case 4:
				// a forbidden allotment that also holds an ill-typed or undeclared address
				var bad gen.Expr = gen.V("nowhere_declared")
				if r.Bool() {
					bad = litOfType(r, r.Pick("number", "string", "monetary", "asset"))
				}
				sd.Src = &gen.SrcAllot{Items: []*gen.SrcAllotItem{{A: &gen.AllotLit{Lit: &gen.Ratio{Text: "1/2"}}, From: &gen.SrcAccount{E: bad}}, {A: &gen.AllotRemaining{}, From: gen.SA("b")}}}
				if r.Bool() {
					sd.Src.(*gen.SrcAllot).Items[0], sd.Src.(*gen.SrcAllot).Items[1] = sd.Src.(*gen.SrcAllot).Items[1], sd.Src.(*gen.SrcAllot).Items[0]
					sd.Src.(*gen.SrcAllot).Items[0].A, sd.Src.(*gen.SrcAllot).Items[1].A = sd.Src.(*gen.SrcAllot).Items[1].A, sd.Src.(*gen.SrcAllot).Items[0].A
				}
				return "send-all-shape+bad-address", "send.source>allot"
			case 0:
				sd.Src = &gen.SrcAllot{Items: []*gen.SrcAllotItem{{A: &gen.AllotLit{Lit: &gen.Ratio{Text: "1/2"}}, From: gen.SA("a")}, {A: &gen.AllotRemaining{}, From: gen.SA("b")}}}
			case 1:
				sd.Src = &gen.SrcOverdraft{Addr: gen.A("a")}
			case 2:
				sd.Src = gen.SA("world")
			default:
				sd.Src = &gen.SrcInorder{Srcs: []gen.Source{gen.SA("a"), &gen.SrcOverdraft{Addr: gen.A("b")}}}
			}
			return "send-all-shape", "send.source"
		case 8, 9: // ill-typed arithmetic
			sl := exprSlots(sc)
			var cands, anys []slot
			for _, s := range sl {
				if s.want != "any" {
					cands = append(cands, s)
				} else {
					anys = append(anys, s)
				}
			}
			op := byte('+')
			if r.Bool() {
				op = '-'
			}
			if len(anys) > 0 && r.Chance(1, 4) {
				// a position that takes a value of any type still needs + and - to be well typed
				s := anys[r.Intn(len(anys))]
				switch r.Intn(3) {
				case 0:
					s.set(&gen.Infix{Op: op, L: litOfType(r, "number"), R: litOfType(r, "monetary")})
				case 1:
					s.set(&gen.Infix{Op: op, L: litOfType(r, "monetary"), R: litOfType(r, "number")})
				default:
					t := r.Pick("string", "account", "asset", "portion")
					s.set(&gen.Infix{Op: op, L: litOfType(r, t), R: litOfType(r, r.Pick(t, "number"))})
				}
				return "infix", s.where + ">any"
			}
			if len(cands) == 0 {
				continue
			}
			s := cands[r.Intn(len(cands))]
			old := s.get()
			if _, isInfix := old.(*gen.Infix); isInfix {
				continue
			}
			switch r.Intn(4) {
			case 0: // keep the left operand, add an operand the operator cannot take
				s.set(&gen.Infix{Op: op, L: old, R: litOfType(r, otherType(r, s.want))})
			case 1: // two well-typed operands of a type the position does not accept
				t := r.Pick("number", "monetary")
				if t == s.want {
					continue
				}
				s.set(&gen.Infix{Op: op, L: litOfType(r, t), R: litOfType(r, t)})
			case 2: // operands that are not arithmetic at all
				t := r.Pick("string", "account", "asset", "portion")
				s.set(&gen.Infix{Op: op, L: litOfType(r, t), R: litOfType(r, t)})
			default: // mixed number / monetary
				s.set(&gen.Infix{Op: op, L: gen.N("1"), R: gen.M("USD", "2")})
			}
			return "infix", s.where
		}
	}
	return "", ""
}

func runC17(c *fw.Ctx) {
	cfgs := typedCfgs()
	huge, _ := new(big.Int).SetString("1000000000000000000000000000000", 10)
	prep := func(cs *gen.Case, cfg gen.LCfg) {
		for _, a := range cfg.Accounts {
			cs.Balances[a] = map[string]*big.Int{}
			for _, as := range cfg.Assets {
				cs.Balances[a][as] = new(big.Int).Set(huge)
			}
		}
	}
	n := c.N(100000, 1000000)
	for i := 0; i < n; i++ {
		id := "edit/" + itoa(i)
		if !c.Want(i, id) {
			continue
		}
		cfg := cfgs[i%len(cfgs)]
		cfg.PBig = 0
		control := gen.GenLedger(c.Rng(id), cfg)
		prep(control, cfg)
		ctext := gen.PrintCanonical(control.Script).Text
		cpo := real.Parse(ctext)
		if cpo.Panicked || len(cpo.Errors) > 0 {
			continue
		}
		cres := analysis.CheckSource(ctext)
		co, _ := real.RunCase(cpo.Result, control, real.Exact)
		c.Eval()
		if countErrors(cres.Diagnostics) > 0 || !co.OK() {
			c.Count("control_not_clean_skipped", 1)
			continue
		}
		cs := gen.GenLedger(c.Rng(id), cfg)
		prep(cs, cfg)
		kind, where := typeEdit(c.Rng(id+"/edit"), cs)
		if kind == "" {
			continue
		}
		if i%8 == 3 {
			// a second edit on top of the first: two faults in one script (one may hide the other
			// from the checker, the run still meets whichever comes first)
			if k2, w2 := typeEdit(c.Rng(id+"/edit2"), cs); k2 != "" {
				kind, where = kind+"+"+k2, where+"+"+w2
				c.Count("scripts_with_two_edits", 1)
			}
		}
		if i%16 == 9 {
			// every source of the edited script is wrapped in many levels of single-entry lists:
			// a fault in a source sits 8 .. 100 levels deep
			depth := []int{8, 16, 31, 32, 33, 34, 40, 64, 65, 100}[(i/16)%10]
			for _, st := range cs.Script.Stmts {
				sd, ok := st.(*gen.Send)
				if !ok {
					continue
				}
				for k := 0; k < depth; k++ {
					sd.Src = &gen.SrcInorder{Srcs: []gen.Source{sd.Src}}
				}
			}
			where += ">nested-" + itoa(depth)
			c.Count("edits_under_deep_nesting", 1)
		}
		if i%16 == 5 {
			// many statements that each draw a warning (and run fine) come before the edited script
			w := []int{249, 250, 251, 300, 999, 1001}[(i/16)%6]
			pre := make([]gen.Stmt, 0, w+len(cs.Script.Stmts))
			for k := 0; k < w; k++ {
				sd := &gen.Send{Sent: &gen.SentValue{E: gen.M("USD", "1")}, Src: gen.SA("world"), Dst: &gen.DstAccount{E: gen.A("sink")}}
				switch k % 3 {
				case 0: // redundant remaining
					sd.Dst = &gen.DstAllot{Items: []*gen.DstAllotItem{{A: &gen.AllotLit{Lit: &gen.Ratio{Text: "1/1"}}, To: &gen.KOD{To: &gen.DstAccount{E: gen.A("sink")}}}, {A: &gen.AllotRemaining{}, To: &gen.KOD{Kept: true}}}}
				case 1: // @world with an overdraft clause
					sd.Src = &gen.SrcOverdraft{Addr: gen.A("world")}
				default: // the unbounded account is not the last one
					sd.Src = &gen.SrcInorder{Srcs: []gen.Source{gen.SA("world"), gen.SA("a")}}
				}
				pre = append(pre, sd)
			}
			cs.Script.Stmts = append(pre, cs.Script.Stmts...)
			where += ">after-" + itoa(w) + "-warnings"
			c.Count("edits_after_many_warnings", 1)
		}
		text := gen.PrintCanonical(cs.Script).Text
		input := func() any {
			d := cs.Describe()
			d["edit"], d["edit_position"], d["control_script"] = kind, where, ctext
			return d
		}
		po := real.Parse(text)
		if po.Panicked {
			c.Violation("panic:parse:"+po.Frame, "parse panics: "+po.PanicVal, input())
			return
		}
		if len(po.Errors) > 0 {
			c.Count("edited_script_rejected_by_parser", 1)
			continue
		}
		var res analysis.CheckResult
		if !c.Guard("analysis.CheckSource", input, func() { res = analysis.CheckSource(text) }) {
			return
		}
		o, _ := real.RunCase(po.Result, cs, real.Exact)
		c.Eval()
		if o.Panicked {
			c.Violation("panic:"+o.Frame, "run panics: "+o.PanicVal, input())
			return
		}
		errs, total := countErrors(res.Diagnostics), len(res.Diagnostics)
		c.Count("edits_checked", 1)
		c.Count("edit_"+kind, 1)
		silent := "flagged"
		if errs == 0 {
			silent = "silent"
			c.Count("edits_checker_silent", 1)
		} else {
			c.Count("edits_flagged_by_checker", 1)
		}
		if o.Err != nil && staticClasses[o.Class] {
			c.Count("edits_failing_statically_at_run_time", 1)
			if errs == 0 {
				c.Violation("clean-check-static-failure:"+kind+":"+o.Class,
					fmt.Sprintf("after the edit %q at %s the checker reports no error (diagnostics: %v) but the run fails with %s: %v", kind, where, diagSet(res.Diagnostics), o.Class, o.Err), input())
				return
			}
		}
		if o.Err != nil && shapeClasses[o.Class] && total == 0 {
			c.Violation("no-diagnostic-send-all-shape:"+o.Class,
				fmt.Sprintf("after the edit %q the checker reports nothing at all but the run fails with %s: %v", kind, o.Class, o.Err), input())
			return
		}
		c.Distinct(kind + "|" + where + "|" + silent + "|" + o.Class)
		if c.WantSample() && i%31 == 9 {
			c.Sample(map[string]any{"case": id, "input": input(), "diagnostics": diagSet(res.Diagnostics), "run": o.Summary()})
		}
	}
}

// countErrors counts the error-severity diagnostics (not through the library's own helper).
func countErrors(ds []analysis.Diagnostic) int {
	n := 0
	for _, d := range ds {
		if d.Kind.Severity() == analysis.ErrorSeverity {
			n++
		}
	}
	return n
}
