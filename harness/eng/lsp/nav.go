package main

import (
	"reflect"

	"encoding/json"
	"fmt"
	"github.com/formancehq/numscript/internal/parser"
	"strings"

	"github.com/formancehq/numscript/internal/lsp"
	"github.com/formancehq/numscript/verifharness/fw"
	"github.com/formancehq/numscript/verifharness/gen"
	"github.com/formancehq/numscript/verifharness/rng"
)

type navTarget struct {
	kind  string // "var" | "fn"
	span  gen.Span
	name  string
	typ   string   // declared type (var)
	decl  gen.Span // declaration's name span (var)
	sig   string   // "(a, b)" (fn)
	where string
}

var fnSigs = map[string]string{
	"set_tx_meta": "(string, any)", "set_account_meta": "(account, string, any)",
	"meta": "(account, string)", "balance": "(account, asset)", "overdraft": "(account, asset)",
}
var originFns = map[string]bool{"meta": true, "balance": true, "overdraft": true}

type lspPos struct {
	Line      int `json:"line"`
	Character int `json:"character"`
}
type lspRange struct {
	Start lspPos `json:"start"`
	End   lspPos `json:"end"`
}

func sameRange(r lspRange, s gen.Span) bool {
	return r.Start.Line == s.Start.Line && r.Start.Character == s.Start.Char && r.End.Line == s.End.Line && r.End.Character == s.End.Char
}

func navCfgs() []gen.LCfg {
	b := gen.DefaultLCfg()
	b.BigLiterals = true
	b.PVarAcct, b.PVarAmt, b.PInfix, b.PPortionVar, b.POriginVar, b.PMetaStmt = 60, 60, 30, 50, 20, 25
	d := b
	d.Depth, d.Fanout, d.MaxStmts = 4, 4, 5
	e := b
	e.PSrcAllot, e.PDstAllot, e.PSrcCap, e.POverdraft, e.PKept = 40, 45, 30, 50, 30
	return []gen.LCfg{b, d, e}
}

func navigation(c *fw.Ctx) {
	cfgs := navCfgs()
	layouts := []int{gen.LayoutCanonical, gen.LayoutCompact, gen.LayoutLines, gen.LayoutComments}
	n := c.N(600, 12000)
	for i := 0; i < n; i++ {
		id := "nav/" + itoa(i)
		if !c.Want(80_000_000+i, id) {
			continue
		}
		r := c.Rng(id)
		cs := gen.GenLedger(r, cfgs[i%len(cfgs)])
		sc := cs.Script
		// let variable uses also occur inside variable origins: an origin's account argument is
		// rewritten to an account variable declared before it
		for di, d := range sc.Vars {
			if d.Origin == nil || len(d.Origin.Args) == 0 || !r.Bool() {
				continue
			}
			for _, e := range sc.Vars[:di] {
				if e.Type == "account" && e.Origin == nil {
					d.Origin.Args[0] = gen.V(e.Name)
					break
				}
			}
		}
		if r.Chance(1, 3) {
			// a meta() origin after all plain declarations, reading through an account variable
			for _, e := range sc.Vars {
				if e.Type == "account" && e.Origin == nil {
					sc.Vars = append(sc.Vars, &gen.VarDecl{Type: "string", Name: "frommeta", Origin: &gen.Call{Name: "meta", Args: []gen.Expr{gen.V(e.Name), gen.S("k")}}})
					sc.Stmts = append(sc.Stmts, &gen.Call{Name: "set_tx_meta", Args: []gen.Expr{gen.S("m"), gen.V("frommeta")}})
					break
				}
			}
		}
		lk := layouts[i%len(layouts)]
		pr := gen.Print(sc, gen.Layout{Kind: lk, R: r})
		uri := "file:///nav.num"
		input := func(extra map[string]any) any {
			d := map[string]any{"text": pr.Text, "layout": lk}
			for k, v := range extra {
				d[k] = v
			}
			return d
		}
		st := lsp.InitialState()
		_, _, pk, pv, fr := handle(&st, "textDocument/didOpen", map[string]any{"textDocument": map[string]any{"uri": uri, "languageId": "numscript", "version": 1, "text": pr.Text}})
		if pk {
			c.Violation("panic:lsp.Handle:"+fr, fmt.Sprintf("didOpen panics: %v", pv), input(nil))
			return
		}
		// targets
		decls, uses := gen.CollectNames(sc, pr)
		first := map[string]gen.NameDecl{}
		for _, d := range decls {
			if _, ok := first[d.Name]; !ok {
				first[d.Name] = d
			}
		}
		var targets []navTarget
		for _, u := range uses {
			d, ok := first[u.Name]
			if !ok {
				continue
			}
			targets = append(targets, navTarget{kind: "var", span: u.Span, name: u.Name, typ: d.Type, decl: d.Span, where: u.Where})
		}
		addFn := func(cl *gen.Call, origin bool) {
			sig, ok := fnSigs[cl.Name]
			if !ok || originFns[cl.Name] != origin {
				return
			}
			sp, _ := pr.SpanOf(cl, "caller")
			targets = append(targets, navTarget{kind: "fn", span: sp, name: cl.Name, sig: sig, where: "fn"})
		}
		for _, d := range sc.Vars {
			if d.Origin != nil {
				addFn(d.Origin, true)
			}
		}
		for _, s := range sc.Stmts {
			if cl, ok := s.(*gen.Call); ok {
				addFn(cl, false)
			}
		}
		// classification of a position
		classify := func(l, ch int) (t *navTarget, either bool) {
			for k := range targets {
				sp := targets[k].span
				if sp.Start.Line != l {
					continue
				}
				if ch >= sp.Start.Char && ch < sp.End.Char {
					return &targets[k], false
				}
				if ch == sp.End.Char {
					either = true
				}
			}
			return nil, either
		}
		for l, width := range pr.Lines {
			for ch := 0; ch <= width; ch++ {
				pos := map[string]any{"line": l, "character": ch}
				p := map[string]any{"textDocument": map[string]any{"uri": uri}, "position": pos}
				hov, _, pk1, pv1, fr1 := handle(&st, "textDocument/hover", p)
				def, _, pk2, pv2, fr2 := handle(&st, "textDocument/definition", p)
				c.Evals(2)
				c.Count("positions_navigated", 1)
				ex := map[string]any{"line": l, "character": ch, "hover": hov, "definition": def}
				if pk1 || pk2 {
					c.Violation("panic:lsp.Handle:"+fr1+fr2, fmt.Sprintf("hover/definition panics at %d:%d: %v %v", l, ch, pv1, pv2), input(ex))
					return
				}
				t, either := classify(l, ch)
				if t == nil {
					if either {
						continue
					}
					if hov != "null" || def != "null" {
						c.Violation("answer-where-nothing-is", fmt.Sprintf("position %d:%d is not inside a variable use or a built-in name, but hover=%s definition=%s", l, ch, hov, def), input(ex))
						return
					}
					continue
				}
				var h struct {
					Contents struct {
						Value string `json:"value"`
					} `json:"contents"`
					Range lspRange `json:"range"`
				}
				if hov == "null" || json.Unmarshal([]byte(hov), &h) != nil {
					c.Violation("no-hover:"+t.kind, fmt.Sprintf("position %d:%d is inside %s %q (%s) but hover answers %s", l, ch, t.kind, t.name, t.where, hov), input(ex))
					return
				}
				if !sameRange(h.Range, t.span) {
					c.Violation("hover-range:"+t.kind, fmt.Sprintf("hover at %d:%d inside %q reports range %+v; the token spans %+v", l, ch, t.name, h.Range, t.span), input(ex))
					return
				}
				if t.kind == "var" {
					if !strings.Contains(h.Contents.Value, "$"+t.name+": "+t.typ) {
						c.Violation("hover-content:var", fmt.Sprintf("hover inside $%s (declared %s) shows %q", t.name, t.typ, h.Contents.Value), input(ex))
						return
					}
					var d struct {
						URI   string   `json:"uri"`
						Range lspRange `json:"range"`
					}
					if def == "null" || json.Unmarshal([]byte(def), &d) != nil || d.URI != uri || !sameRange(d.Range, t.decl) {
						c.Violation("definition", fmt.Sprintf("definition at %d:%d inside $%s answers %s; the declaration's name spans %+v", l, ch, t.name, def, t.decl), input(ex))
						return
					}
					c.Count("variable_uses_navigated", 1)
				} else {
					if !strings.Contains(h.Contents.Value, t.name+t.sig) {
						c.Violation("hover-content:fn", fmt.Sprintf("hover inside %s shows %q, expected its signature %s%s", t.name, h.Contents.Value, t.name, t.sig), input(ex))
						return
					}
					if def != "null" {
						c.Violation("definition-on-builtin", fmt.Sprintf("definition inside the built-in name %s answers %s", t.name, def), input(ex))
						return
					}
					c.Count("builtin_names_navigated", 1)
				}
				c.Distinct(fmt.Sprintf("nav|%s|%s|L%d", t.kind, t.where, lk))
			}
		}
		if c.WantSample() && i%9 == 4 {
			c.Sample(map[string]any{"case": id, "text": pr.Text, "targets": len(targets), "positions": len(pr.Text)})
		}
		if !damagedNavigation(c, r, sc, pr, lk) {
			return
		}
	}
}

// damagedNavigation: the document while it is being typed. The text is cut before some token of a
// statement (everything that follows is missing), or one token of a statement is deleted. What
// counts as a use of a declared variable in such a text is read off the parser's own tree of
// that text (its exactness is C15's business): every Variable node the tree holds, in a statement
// or in the origin of a later declaration, whose name has a complete declaration. Hover must
// identify it with exactly that node's range and the declared type; definition must answer the
// range of the declaration's name.
func damagedNavigation(c *fw.Ctx, r *rng.R, sc *gen.Script, pr *gen.Printed, lk int) bool {
	if len(sc.Stmts) == 0 || len(pr.TokText) < 3 {
		return true
	}
	uri := "file:///nav-damaged.num"
	for round := 0; round < 8; round++ {
		t := 1 + r.Intn(len(pr.TokText)-1)
		var text, kind string
		switch round % 4 {
		case 0:
			kind = "cut-before-token"
			text = pr.Text[:pr.TokOff[t]]
		case 1, 2:
			kind = "token-deleted"
			text = pr.Text[:pr.TokOff[t]] + pr.Text[pr.TokOff[t]+len(pr.TokText[t]):]
		default:
			kind = "token-doubled"
			text = pr.Text[:pr.TokOff[t]] + pr.TokText[t] + " " + pr.Text[pr.TokOff[t]:]
		}
		input := func(extra map[string]any) any {
			d := map[string]any{"text": text, "damage": kind, "damaged_at_token": pr.TokText[t], "full_text": pr.Text, "layout": lk}
			for k, v := range extra {
				d[k] = v
			}
			return d
		}
		var tree parser.ParseResult
		if p, _, _ := fw.Catch(func() { tree = parser.Parse(text) }); p {
			continue // C14's business
		}
		type declInfo struct {
			idx int
			typ string
			rng parser.Range
		}
		decls := map[string]declInfo{}
		for i, d := range tree.Value.Vars {
			if d.Name == nil || d.Type == nil || d.Name.Name == "" {
				continue
			}
			if _, dup := decls[d.Name.Name]; !dup {
				decls[d.Name.Name] = declInfo{i, d.Type.Name, d.Name.Range}
			}
		}
		type use struct {
			v      *parser.Variable
			origin int // index of the declaration whose origin holds the use; len(Vars) for statements
		}
		var uses []use
		for i, d := range tree.Value.Vars {
			if d.Origin != nil {
				for _, v := range variablesIn(reflect.ValueOf(d.Origin)) {
					uses = append(uses, use{v, i})
				}
			}
		}
		for _, v := range variablesIn(reflect.ValueOf(tree.Value.Statements)) {
			uses = append(uses, use{v, len(tree.Value.Vars)})
		}
		if len(uses) == 0 {
			continue
		}
		st := lsp.InitialState()
		_, _, pk, pv, fr := handle(&st, "textDocument/didOpen", map[string]any{"textDocument": map[string]any{"uri": uri, "languageId": "numscript", "version": 1, "text": text}})
		if pk {
			c.Violation("panic:lsp.Handle:"+fr, fmt.Sprintf("didOpen panics: %v", pv), input(nil))
			return false
		}
		for _, u := range uses {
			d, ok := decls[u.v.Name]
			if !ok || d.idx >= u.origin {
				continue // undeclared, or not declared yet where it is used
			}
			rg := u.v.Range
			if rg.End.Line != rg.Start.Line || rg.End.Character <= rg.Start.Character {
				continue
			}
			l, ch := rg.Start.Line, rg.Start.Character+(rg.End.Character-rg.Start.Character)/2
			p := map[string]any{"textDocument": map[string]any{"uri": uri}, "position": map[string]any{"line": l, "character": ch}}
			hov, _, pk1, pv1, fr1 := handle(&st, "textDocument/hover", p)
			def, _, pk2, pv2, fr2 := handle(&st, "textDocument/definition", p)
			c.Evals(2)
			ex := map[string]any{"line": l, "character": ch, "hover": hov, "definition": def, "use_in_the_parsed_tree": fmt.Sprintf("$%s at %d:%d-%d:%d", u.v.Name, rg.Start.Line, rg.Start.Character, rg.End.Line, rg.End.Character)}
			if pk1 || pk2 {
				c.Violation("panic:lsp.Handle:"+fr1+fr2, fmt.Sprintf("hover/definition panics at %d:%d: %v %v", l, ch, pv1, pv2), input(ex))
				return false
			}
			want := gen.Span{Start: gen.Pos{Line: rg.Start.Line, Char: rg.Start.Character}, End: gen.Pos{Line: rg.End.Line, Char: rg.End.Character}}
			var h struct {
				Contents struct {
					Value string `json:"value"`
				} `json:"contents"`
				Range lspRange `json:"range"`
			}
			if hov == "null" || json.Unmarshal([]byte(hov), &h) != nil || !sameRange(h.Range, want) || !strings.Contains(h.Contents.Value, "$"+u.v.Name+": "+d.typ) {
				c.Violation("damaged-document-hover", fmt.Sprintf("the parsed tree of the damaged text (%s %q) holds a use of $%s (declared %s) at %d:%d but hover there answers %s", kind, pr.TokText[t], u.v.Name, d.typ, l, ch, hov), input(ex))
				return false
			}
			wantDecl := gen.Span{Start: gen.Pos{Line: d.rng.Start.Line, Char: d.rng.Start.Character}, End: gen.Pos{Line: d.rng.End.Line, Char: d.rng.End.Character}}
			var dd struct {
				URI   string   `json:"uri"`
				Range lspRange `json:"range"`
			}
			if def == "null" || json.Unmarshal([]byte(def), &dd) != nil || dd.URI != uri || !sameRange(dd.Range, wantDecl) {
				c.Violation("damaged-document-definition", fmt.Sprintf("the parsed tree of the damaged text (%s %q) holds a use of $%s at %d:%d but definition there answers %s", kind, pr.TokText[t], u.v.Name, l, ch, def), input(ex))
				return false
			}
			c.Count("uses_navigated_in_damaged_documents", 1)
		}
	}
	return true
}

// variablesIn lists the Variable nodes below v (generic walk over the parser's tree).
func variablesIn(v reflect.Value) []*parser.Variable {
	var out []*parser.Variable
	var walk func(v reflect.Value, depth int)
	walk = func(v reflect.Value, depth int) {
		if depth > 400 || !v.IsValid() {
			return
		}
		switch v.Kind() {
		case reflect.Ptr:
			if v.IsNil() {
				return
			}
			if x, ok := v.Interface().(*parser.Variable); ok {
				if x.Name != "" {
					out = append(out, x)
				}
				return
			}
			walk(v.Elem(), depth+1)
		case reflect.Interface:
			if !v.IsNil() {
				walk(v.Elem(), depth+1)
			}
		case reflect.Slice:
			for i := 0; i < v.Len(); i++ {
				walk(v.Index(i), depth+1)
			}
		case reflect.Struct:
			if fc, ok := v.Interface().(parser.FnCall); ok && (fc.Caller == nil || strings.HasPrefix(fc.Caller.Name, "<missing")) {
				return // a call whose name is missing (the parser conjures a token without a place in the text)
			}
			for i := 0; i < v.NumField(); i++ {
				if v.Type().Field(i).IsExported() {
					walk(v.Field(i), depth+1)
				}
			}
		}
	}
	walk(v, 0)
	return out
}

func tokClass(t string) string {
	switch {
	case strings.HasPrefix(t, "$"):
		return "$var"
	case strings.HasPrefix(t, "@"):
		return "@acct"
	case strings.HasPrefix(t, "\""):
		return "string"
	case t[0] >= '0' && t[0] <= '9' || t[0] == '-':
		return "number"
	case t[0] >= 'A' && t[0] <= 'Z':
		return "ASSET"
	}
	return t
}
