package main

import (
	"encoding/json"
	"fmt"
	"strings"

	"github.com/formancehq/numscript/internal/lsp"
	"github.com/formancehq/numscript/verifharness/fw"
	"github.com/formancehq/numscript/verifharness/gen"
)

type navTarget struct {
	kind  string // "var" | "fn"
	span  gen.Span
	name  string
	typ   string   // declared type (var)
	decl  gen.Span // declaration's name span (var)
	sig   string   // "(a, b)" (fn)
	where string
}

var fnSigs = map[string]string{
	"set_tx_meta": "(string, any)", "set_account_meta": "(account, string, any)",
	"meta": "(account, string)", "balance": "(account, asset)", "overdraft": "(account, asset)",
}
var originFns = map[string]bool{"meta": true, "balance": true, "overdraft": true}

type lspPos struct {
	Line      int `json:"line"`
	Character int `json:"character"`
}
type lspRange struct {
	Start lspPos `json:"start"`
	End   lspPos `json:"end"`
}

func sameRange(r lspRange, s gen.Span) bool {
	return r.Start.Line == s.Start.Line && r.Start.Character == s.Start.Char && r.End.Line == s.End.Line && r.End.Character == s.End.Char
}

func navCfgs() []gen.LCfg {
	b := gen.DefaultLCfg()
	b.BigLiterals = true
	b.PVarAcct, b.PVarAmt, b.PInfix, b.PPortionVar, b.POriginVar, b.PMetaStmt = 60, 60, 30, 50, 20, 25
	d := b
	d.Depth, d.Fanout, d.MaxStmts = 4, 4, 5
	e := b
	e.PSrcAllot, e.PDstAllot, e.PSrcCap, e.POverdraft, e.PKept = 40, 45, 30, 50, 30
	return []gen.LCfg{b, d, e}
}

func navigation(c *fw.Ctx) {
	cfgs := navCfgs()
	layouts := []int{gen.LayoutCanonical, gen.LayoutCompact, gen.LayoutLines, gen.LayoutComments}
	n := c.N(600, 12000)
	for i := 0; i < n; i++ {
		id := "nav/" + itoa(i)
		if !c.Want(80_000_000+i, id) {
			continue
		}
		r := c.Rng(id)
		cs := gen.GenLedger(r, cfgs[i%len(cfgs)])
		sc := cs.Script
		// let variable uses also occur inside variable origins: an origin's account argument is
		// rewritten to an account variable declared before it
		for di, d := range sc.Vars {
			if d.Origin == nil || len(d.Origin.Args) == 0 || !r.Bool() {
				continue
			}
			for _, e := range sc.Vars[:di] {
				if e.Type == "account" && e.Origin == nil {
					d.Origin.Args[0] = gen.V(e.Name)
					break
				}
			}
		}
		if r.Chance(1, 3) {
			// a meta() origin after all plain declarations, reading through an account variable
			for _, e := range sc.Vars {
				if e.Type == "account" && e.Origin == nil {
					sc.Vars = append(sc.Vars, &gen.VarDecl{Type: "string", Name: "frommeta", Origin: &gen.Call{Name: "meta", Args: []gen.Expr{gen.V(e.Name), gen.S("k")}}})
					sc.Stmts = append(sc.Stmts, &gen.Call{Name: "set_tx_meta", Args: []gen.Expr{gen.S("m"), gen.V("frommeta")}})
					break
				}
			}
		}
		lk := layouts[i%len(layouts)]
		pr := gen.Print(sc, gen.Layout{Kind: lk, R: r})
		uri := "file:///nav.num"
		input := func(extra map[string]any) any {
			d := map[string]any{"text": pr.Text, "layout": lk}
			for k, v := range extra {
				d[k] = v
			}
			return d
		}
		st := lsp.InitialState()
		_, _, pk, pv, fr := handle(&st, "textDocument/didOpen", map[string]any{"textDocument": map[string]any{"uri": uri, "languageId": "numscript", "version": 1, "text": pr.Text}})
		if pk {
			c.Violation("panic:lsp.Handle:"+fr, fmt.Sprintf("didOpen panics: %v", pv), input(nil))
			return
		}
		// targets
		decls, uses := gen.CollectNames(sc, pr)
		first := map[string]gen.NameDecl{}
		for _, d := range decls {
			if _, ok := first[d.Name]; !ok {
				first[d.Name] = d
			}
		}
		var targets []navTarget
		for _, u := range uses {
			d, ok := first[u.Name]
			if !ok {
				continue
			}
			targets = append(targets, navTarget{kind: "var", span: u.Span, name: u.Name, typ: d.Type, decl: d.Span, where: u.Where})
		}
		addFn := func(cl *gen.Call, origin bool) {
			sig, ok := fnSigs[cl.Name]
			if !ok || originFns[cl.Name] != origin {
				return
			}
			sp, _ := pr.SpanOf(cl, "caller")
			targets = append(targets, navTarget{kind: "fn", span: sp, name: cl.Name, sig: sig, where: "fn"})
		}
		for _, d := range sc.Vars {
			if d.Origin != nil {
				addFn(d.Origin, true)
			}
		}
		for _, s := range sc.Stmts {
			if cl, ok := s.(*gen.Call); ok {
				addFn(cl, false)
			}
		}
		// classification of a position
		classify := func(l, ch int) (t *navTarget, either bool) {
			for k := range targets {
				sp := targets[k].span
				if sp.Start.Line != l {
					continue
				}
				if ch >= sp.Start.Char && ch < sp.End.Char {
					return &targets[k], false
				}
				if ch == sp.End.Char {
					either = true
				}
			}
			return nil, either
		}
		for l, width := range pr.Lines {
			for ch := 0; ch <= width; ch++ {
				pos := map[string]any{"line": l, "character": ch}
				p := map[string]any{"textDocument": map[string]any{"uri": uri}, "position": pos}
				hov, _, pk1, pv1, fr1 := handle(&st, "textDocument/hover", p)
				def, _, pk2, pv2, fr2 := handle(&st, "textDocument/definition", p)
				c.Evals(2)
				c.Count("positions_navigated", 1)
				ex := map[string]any{"line": l, "character": ch, "hover": hov, "definition": def}
				if pk1 || pk2 {
					c.Violation("panic:lsp.Handle:"+fr1+fr2, fmt.Sprintf("hover/definition panics at %d:%d: %v %v", l, ch, pv1, pv2), input(ex))
					return
				}
				t, either := classify(l, ch)
				if t == nil {
					if either {
						continue
					}
					if hov != "null" || def != "null" {
						c.Violation("answer-where-nothing-is", fmt.Sprintf("position %d:%d is not inside a variable use or a built-in name, but hover=%s definition=%s", l, ch, hov, def), input(ex))
						return
					}
					continue
				}
				var h struct {
					Contents struct {
						Value string `json:"value"`
					} `json:"contents"`
					Range lspRange `json:"range"`
				}
				if hov == "null" || json.Unmarshal([]byte(hov), &h) != nil {
					c.Violation("no-hover:"+t.kind, fmt.Sprintf("position %d:%d is inside %s %q (%s) but hover answers %s", l, ch, t.kind, t.name, t.where, hov), input(ex))
					return
				}
				if !sameRange(h.Range, t.span) {
					c.Violation("hover-range:"+t.kind, fmt.Sprintf("hover at %d:%d inside %q reports range %+v; the token spans %+v", l, ch, t.name, h.Range, t.span), input(ex))
					return
				}
				if t.kind == "var" {
					if !strings.Contains(h.Contents.Value, "$"+t.name+": "+t.typ) {
						c.Violation("hover-content:var", fmt.Sprintf("hover inside $%s (declared %s) shows %q", t.name, t.typ, h.Contents.Value), input(ex))
						return
					}
					var d struct {
						URI   string   `json:"uri"`
						Range lspRange `json:"range"`
					}
					if def == "null" || json.Unmarshal([]byte(def), &d) != nil || d.URI != uri || !sameRange(d.Range, t.decl) {
						c.Violation("definition", fmt.Sprintf("definition at %d:%d inside $%s answers %s; the declaration's name spans %+v", l, ch, t.name, def, t.decl), input(ex))
						return
					}
					c.Count("variable_uses_navigated", 1)
				} else {
					if !strings.Contains(h.Contents.Value, t.name+t.sig) {
						c.Violation("hover-content:fn", fmt.Sprintf("hover inside %s shows %q, expected its signature %s%s", t.name, h.Contents.Value, t.name, t.sig), input(ex))
						return
					}
					if def != "null" {
						c.Violation("definition-on-builtin", fmt.Sprintf("definition inside the built-in name %s answers %s", t.name, def), input(ex))
						return
					}
					c.Count("builtin_names_navigated", 1)
				}
				c.Distinct(fmt.Sprintf("nav|%s|%s|L%d", t.kind, t.where, lk))
			}
		}
		if c.WantSample() && i%9 == 4 {
			c.Sample(map[string]any{"case": id, "text": pr.Text, "targets": len(targets), "positions": len(pr.Text)})
		}
	}
}
