// Engine "lsp": property C19 (the language server answers from the latest text of the right
// document; navigation is exact).
package main

import (
	"encoding/json"
	"fmt"
	"github.com/formancehq/numscript/internal/analysis"
	"hash/adler32"
	"hash/crc32"
	"hash/fnv"
	"io"
	"os"
	"sort"
	"strconv"
	"strings"
	"unicode/utf8"

	"github.com/formancehq/numscript/internal/lsp"
	"github.com/formancehq/numscript/verifharness/fw"
	"github.com/formancehq/numscript/verifharness/gen"
	"github.com/formancehq/numscript/verifharness/rng"
	"github.com/sourcegraph/jsonrpc2"
)

func main() {
	fw.Register(propC19())
	fw.Main()
}

func itoa(i int) string { return strconv.Itoa(i) }

func propC19() *fw.Prop {
	return &fw.Prop{
		ID: "C19", Level: "exploration",
		Rule:        "(i) history monitor: sequential request histories over {didOpen, didChange with 1–2 content changes, hover, definition, documentSymbol} are replayed through lsp.Handle on one server state; the model is map URI → latest text, every text version carries a unique marker (an unused variable named after the version, plus a version-dependent number of leading lines) so that a stale or foreign answer identifies the write it came from; after EVERY request the response — and for writes the publishDiagnostics notification captured from stdout — is compared (JSON; symbols and diagnostics as multisets) with what a fresh server that only saw didOpen(latest text of that URI) returns. Exhaustive for histories of length ≤ 3 (thorough ≤ 4) over 2 URIs × 4 texts (one of them broken), random histories up to length 200 over 4 URIs. (ii) navigation monitor: generated typed scripts under 3 layouts × EVERY cursor position: strictly inside a use of a declared variable ⇒ hover shows `$name: type` with exactly the use's range and definition returns exactly the range of the declaration's name; strictly inside the name of a built-in function in its proper context ⇒ hover names the function and its parameter types; the one-past-the-end position of such a token may answer either way; everywhere else ⇒ null. Distinct = histories in which a query follows ≥ 2 writes, and (construct, layout) classes of navigated uses. Added later: change notifications without content changes; a conforming client (ranged changes only if the server advertises incremental sync); every publishDiagnostics notification and documentSymbol answer is also compared with analysis.CheckSource of the latest text (not only with a fresh server); (iii) navigation in damaged documents (cut before a token, token deleted or doubled): every Variable node of the parser's own tree of the damaged text whose name has a complete declaration must hover and resolve.",
		Assumptions: []string{"harness generators, printer and name model; Go runtime; observation at lsp.Handle's return value and the bytes it writes to stdout", "RunServer is a single sequential loop, so sequential histories are the complete space of histories"},
		Require:     []string{"histories_replayed", "queries_after_two_or_more_writes", "notifications_compared", "positions_navigated", "variable_uses_navigated", "builtin_names_navigated", "exhaustive_spaces_completed"},
		Run:         runC19,
	}
}

// ---- driving the server ----

type server struct {
	st  lsp.State
	out *os.File
	err *os.File
}

var capOut, capErr *os.File

func initCapture() {
	if capOut != nil {
		return
	}
	dir := os.Getenv("VERIF_SCRATCH")
	var e error
	capOut, e = os.CreateTemp(dir, "lspout")
	if e != nil {
		panic(e)
	}
	capErr, e = os.CreateTemp(dir, "lsperr")
	if e != nil {
		panic(e)
	}
	os.Remove(capOut.Name())
	os.Remove(capErr.Name())
}

// handle calls lsp.Handle with stdout/stderr swapped to capture files; it returns the JSON of
// the response and the notification bodies written to stdout.
func handle(st *lsp.State, method string, params any) (resp string, notifs []string, panicked bool, pv any, frame string) {
	initCapture()
	raw, _ := json.Marshal(params)
	rm := json.RawMessage(raw)
	req := jsonrpc2.Request{Method: method, Params: &rm}
	capOut.Truncate(0)
	capOut.Seek(0, io.SeekStart)
	capErr.Truncate(0)
	capErr.Seek(0, io.SeekStart)
	oldOut, oldErr := os.Stdout, os.Stderr
	os.Stdout, os.Stderr = capOut, capErr
	var res any
	func() {
		defer func() { os.Stdout, os.Stderr = oldOut, oldErr }()
		panicked, pv, frame = fw.Catch(func() { res = lsp.Handle(req, st) })
	}()
	if panicked {
		return
	}
	b, err := json.Marshal(res)
	if err != nil {
		resp = "marshal-error: " + err.Error()
	} else {
		resp = string(b)
	}
	capOut.Seek(0, io.SeekStart)
	data, _ := io.ReadAll(capOut)
	notifs = frames(string(data))
	return
}

// frames splits "Content-Length: N\r\n\r\n<body>" sequences.
func frames(s string) []string {
	var out []string
	for len(s) > 0 {
		const h = "Content-Length: "
		if !strings.HasPrefix(s, h) {
			out = append(out, "garbage:"+s)
			return out
		}
		i := strings.Index(s, "\r\n\r\n")
		if i < 0 {
			out = append(out, "garbage:"+s)
			return out
		}
		n, err := strconv.Atoi(s[len(h):i])
		if err != nil || i+4+n > len(s) {
			out = append(out, "garbage:"+s)
			return out
		}
		out = append(out, s[i+4:i+4+n])
		s = s[i+4+n:]
	}
	return out
}

// canon re-encodes JSON with arrays of objects sorted (diagnostics, symbols are multisets).
func canon(js string) string {
	var v any
	if err := json.Unmarshal([]byte(js), &v); err != nil {
		return js
	}
	var norm func(x any) any
	norm = func(x any) any {
		switch x := x.(type) {
		case map[string]any:
			for k, y := range x {
				x[k] = norm(y)
			}
			return x
		case []any:
			strs := make([]string, len(x))
			for i, y := range x {
				b, _ := json.Marshal(norm(y))
				strs[i] = string(b)
			}
			sort.Strings(strs)
			out := make([]any, len(strs))
			for i, s := range strs {
				out[i] = json.RawMessage(s)
			}
			return out
		}
		return x
	}
	b, _ := json.Marshal(norm(v))
	return string(b)
}

func canonAll(xs []string) string {
	ys := make([]string, len(xs))
	for i, x := range xs {
		ys[i] = canon(x)
	}
	return strings.Join(ys, " ++ ")
}

// ---- requests ----

type op struct {
	kind  string // open openplain change change2 hover definition symbols
	uri   int
	text  int    // text index (open/change); for change2 the LAST change
	text0 int    // change2: the first (superseded) change
	pos   int    // index into positions
	raw   string // openraw / changeraw: the text itself
}

func (o op) String() string {
	switch o.kind {
	case "open", "change", "openplain":
		return fmt.Sprintf("%s(u%d,t%d)", o.kind, o.uri, o.text)
	case "changews":
		return fmt.Sprintf("change-trailing-blanks(u%d,%q)", o.uri, wsVariants[o.text%len(wsVariants)])
	case "change2":
		return fmt.Sprintf("change(u%d,[t%d,t%d])", o.uri, o.text0, o.text)
	case "symbols":
		return fmt.Sprintf("symbols(u%d)", o.uri)
	case "change0":
		return fmt.Sprintf("change-with-no-content-changes(u%d)", o.uri)
	case "openraw", "changeraw":
		return fmt.Sprintf("%s(u%d,%q…)", o.kind, o.uri, o.raw[:minInt(24, len(o.raw))])
	}
	return fmt.Sprintf("%s(u%d,p%d)", o.kind, o.uri, o.pos)
}

// URIs of several shapes: plain files, opaque (untitled) buffers, the same path with a query
var uriShapes = []string{"file:///doc0.num", "untitled:Untitled-1", "untitled:Untitled-2", "file:///doc0.num?rev=2", "file:///dir/doc0.num", "file:///doc0.num#frag"}

// uriPerm lets the exhaustive passes use different pairs of URI shapes as documents 0 and 1.
var uriPerm = []int{0, 1, 2, 3, 4, 5}

func uriOf(i int) string { return uriShapes[uriPerm[i%len(uriShapes)]] }

func params(o op, text func(i int) string, positions [][2]int) (string, any) {
	td := map[string]any{"uri": uriOf(o.uri)}
	switch o.kind {
	case "changews":
		// the current text of the document with different trailing blanks (or, for a document that
		// is not open yet, the plain text with them)
		return "textDocument/didChange", map[string]any{"textDocument": map[string]any{"uri": uriOf(o.uri), "version": 4}, "contentChanges": []any{map[string]any{"text": wsText}}}
	case "openraw":
		return "textDocument/didOpen", map[string]any{"textDocument": map[string]any{"uri": uriOf(o.uri), "languageId": "numscript", "version": 1, "text": o.raw}}
	case "changeraw":
		return "textDocument/didChange", map[string]any{"textDocument": map[string]any{"uri": uriOf(o.uri), "version": 6}, "contentChanges": []any{map[string]any{"text": o.raw}}}
	case "change0":
		// a change notification that carries no content change: the document stays what it was
		return "textDocument/didChange", map[string]any{"textDocument": map[string]any{"uri": uriOf(o.uri), "version": 5}, "contentChanges": []any{}}
	case "openplain":
		// the same text on every URI (no version marker)
		plainText = baseTexts[o.text]
		return "textDocument/didOpen", map[string]any{"textDocument": map[string]any{"uri": uriOf(o.uri), "languageId": "numscript", "version": 1, "text": baseTexts[o.text]}}
	case "open":
		return "textDocument/didOpen", map[string]any{"textDocument": map[string]any{"uri": uriOf(o.uri), "languageId": "numscript", "version": 1, "text": text(o.text)}}
	case "change":
		return "textDocument/didChange", map[string]any{"textDocument": map[string]any{"uri": uriOf(o.uri), "version": 2}, "contentChanges": []any{map[string]any{"text": text(o.text)}}}
	case "change2":
		return "textDocument/didChange", map[string]any{"textDocument": map[string]any{"uri": uriOf(o.uri), "version": 3},
			"contentChanges": []any{map[string]any{"text": text(o.text0)}, map[string]any{"text": text(o.text)}}}
	case "hover":
		p := positions[o.pos]
		return "textDocument/hover", map[string]any{"textDocument": td, "position": map[string]any{"line": p[0], "character": p[1]}}
	case "definition":
		p := positions[o.pos]
		return "textDocument/definition", map[string]any{"textDocument": td, "position": map[string]any{"line": p[0], "character": p[1]}}
	default:
		return "textDocument/documentSymbol", map[string]any{"textDocument": td}
	}
}

// versioned text: the base text plus a unique marker.
func versioned(base string, version int) string {
	lead := strings.Repeat("\n", version%3)
	return lead + strings.Replace(base, "vars {", fmt.Sprintf("vars { string $ver_%d", version), 1)
}

var baseTexts = []string{
	"vars { monetary $amt account $dst }\nsend $amt (source = @world destination = $dst)\nset_tx_meta(\"k\", $amt)",
	"vars { account $dst number $n }\nsend [USD $n] (source = { @a @b } destination = $dst)",
	"vars { portion $p }\nsend [COIN 10] (source = @world destination = { $p to @x remaining kept })\nset_account_meta(@x, \"p\", $p)",
	"vars { monetary $amt \nsend $amt (source = @world destination = ",                                             // broken
	"vars { monetary $amt }\nsend $amt (source = @world destination = @x)\n// a comment on the last line",          // a comment only once a newline follows
	"vars { monetary $amt }\nsend $amt (source = @world destination = ",                                            // error anchored at the end of the text
	"/* 😀𝄞 */ vars { monetary $amt }\nsend $amt (source = @world destination = @x) // 😀\nset_tx_meta(\"😀\", $amt)", // characters outside the BMP before the edited places
}

func init() {
	// a text that starts with a byte order mark (index 7)
	baseTexts = append(baseTexts, "\ufeffvars { monetary $amt account $dst }\nsend $amt (source = @world destination = $dst)")
	// texts whose diagnostics span several lines (indices 8..11): the range of a bad allotment sum
	// over an indented block ends at a lower column than it starts, a call written over several lines
	// has too many arguments, a multi-line range that ends at a higher column, an unknown function
	baseTexts = append(baseTexts,
		"vars { account $dst }\nsend [USD 10] (\n    source = @world\n    destination = {\n        1/2 to $dst\n        1/3 to @b\n    }\n)",
		"vars { monetary $amt }\nsend $amt (source = @world destination = @x)\n        set_tx_meta(\"k\",\n  $amt,\n 1)\n            set_account_meta(\n@a,\n\"k\")",
		"vars { account $dst }\nsend [USD 10] (\nsource = {\n1/2 from @a\n1/3 from $dst\n                    }\ndestination = $dst)",
		"vars { number $n }\n                    no_such_function(\n$n,\n$n\n)\nsend [USD $n] (source = @world destination = {\n 2/3 to @a 2/3 to @b\n})",
	)
}

// syncKind is what the server advertises in its answer to initialize (1 = full texts only,
// 2 = incremental): a client only sends ranged changes to a server that asks for them.
var syncKind = -1

func serverSyncKind() int {
	if syncKind >= 0 {
		return syncKind
	}
	st := lsp.InitialState()
	resp, _, pk, _, _ := handle(&st, "initialize", map[string]any{"processId": 1, "capabilities": map[string]any{}})
	syncKind = 0
	if pk {
		return syncKind
	}
	var v struct {
		Capabilities struct {
			TextDocumentSync json.RawMessage `json:"textDocumentSync"`
		} `json:"capabilities"`
	}
	if json.Unmarshal([]byte(resp), &v) == nil {
		var opts struct {
			Change int `json:"change"`
		}
		var kind int
		if json.Unmarshal(v.Capabilities.TextDocumentSync, &opts) == nil && opts.Change != 0 {
			syncKind = opts.Change
		} else if json.Unmarshal(v.Capabilities.TextDocumentSync, &kind) == nil {
			syncKind = kind
		}
	}
	return syncKind
}

// lspPos converts a byte offset of text to an LSP position (line, UTF-16 code units).
func lspPosAt(text string, off int) map[string]any {
	line, col := 0, 0
	for _, r := range text[:off] {
		switch {
		case r == '\n':
			line, col = line+1, 0
		case r > 0xFFFF:
			col += 2
		default:
			col++
		}
	}
	return map[string]any{"line": line, "character": col}
}

// rangedChange is the smallest single ranged edit that turns old into new.
func rangedChange(old, new string) map[string]any {
	p := 0
	for p < len(old) && p < len(new) && old[p] == new[p] {
		p++
	}
	for p > 0 && p < len(old) && !utf8.RuneStart(old[p]) {
		p--
	}
	s := 0
	for s < len(old)-p && s < len(new)-p && old[len(old)-1-s] == new[len(new)-1-s] {
		s++
	}
	for s > 0 && !utf8.RuneStart(old[len(old)-s]) {
		s--
	}
	if len(old)%2 == 0 {
		// not the smallest edit: the rest of the line is replaced (by itself) as well
		for s > 0 && old[len(old)-s] != '\n' {
			s--
		}
	}
	end := lspPosAt(old, len(old)-s)
	if e := len(old) - s; (e == len(old) || old[e] == '\n') && len(old)%2 == 0 {
		// the edit ends at the end of a line: a client may give any column beyond it
		// ("if the character value is greater than the line length it defaults back to the line length")
		end["character"] = 2147483647
	}
	return map[string]any{"range": map[string]any{"start": lspPosAt(old, p), "end": end}, "text": new[p : len(new)-s]}
}

// positions probed by hover / definition in histories (chosen to fall on variable uses in some
// version of some text and on nothing in others)
var plainText string
var wsText string
var wsVariants = []string{"", "\n", " ", "\n\n", "\t\n", "\r\n"}

var histPositions = [][2]int{{1, 6}, {2, 6}, {3, 18}, {1, 12}}

type runner struct {
	c *fw.Ctx
}

// replay runs one history and checks every step against a fresh server.
func (rn *runner) replay(ops []op, label string) bool {
	c := rn.c
	st := lsp.InitialState()
	latest := map[int]string{}
	version := 0
	writesSoFar := 0
	textOf := map[int]string{} // per step resolved text index → versioned text (filled lazily)
	desc := func(step int) any {
		var h []string
		for _, o := range ops {
			h = append(h, o.String())
		}
		docs := map[string]string{}
		for u, t := range latest {
			docs[uriOf(u)] = t
		}
		return map[string]any{"history": h, "failing_step": step, "latest_texts": docs, "label": label}
	}
	for i, o := range ops {
		// each write gets fresh version numbers
		tf := func(ti int) string {
			version++
			t := versioned(baseTexts[ti], version)
			textOf[version] = t
			return t
		}
		if o.kind == "changews" {
			base, ok := latest[o.uri]
			if !ok {
				base = baseTexts[4+o.pos%2]
			}
			wsText = strings.TrimRight(base, " \t\r\n") + wsVariants[o.text%len(wsVariants)]
		}
		prevText, hadPrev := latest[o.uri]
		method, p := params(o, tf, histPositions)
		if o.kind == "change" && hadPrev && serverSyncKind() == 2 && (i+o.text)%3 != 0 {
			// the server asked for incremental changes: send this one as a ranged edit
			pm := p.(map[string]any)
			pm["contentChanges"] = []any{rangedChange(prevText, textOf[version])}
			c.Count("ranged_changes_sent", 1)
		}
		// what the written text is (the last content change)
		var written string
		isWrite := o.kind == "open" || o.kind == "change" || o.kind == "change2" || o.kind == "openplain" || o.kind == "changews" || o.kind == "openraw" || o.kind == "changeraw"
		if isWrite {
			written = textOf[version]
			if o.kind == "openraw" || o.kind == "changeraw" {
				written = o.raw
			}
			if o.kind == "openplain" {
				written = plainText
			}
			if o.kind == "changews" {
				written = wsText
			}
			latest[o.uri] = written
			writesSoFar++
		}
		resp, notifs, pk, pv, fr := handle(&st, method, p)
		c.Eval()
		if pk {
			c.Violation("panic:lsp.Handle:"+fr, fmt.Sprintf("lsp.Handle(%s) panics: %v", method, pv), desc(i))
			return false
		}
		// fresh server holding only the latest text of that URI
		fresh := lsp.InitialState()
		var wantResp string
		var wantNotifs []string
		if lt, ok := latest[o.uri]; ok {
			_, n0, pk0, _, _ := handle(&fresh, "textDocument/didOpen", map[string]any{"textDocument": map[string]any{"uri": uriOf(o.uri), "languageId": "numscript", "version": 1, "text": lt}})
			if pk0 {
				return true // the panic is C18's business and was reported above if it also hit the real state
			}
			if isWrite {
				wantNotifs, wantResp = n0, "null"
			}
		}
		if !isWrite {
			wantResp, _, _, _, _ = handle(&fresh, method, p)
		}
		if canon(resp) != canon(wantResp) {
			c.Violation("stale-or-foreign-answer:"+o.kind, fmt.Sprintf("step %d %s answered %s; a fresh server holding the latest text of that document answers %s", i, o, resp, wantResp), desc(i))
			return false
		}
		if isWrite {
			c.Count("notifications_compared", 1)
			if canonAll(notifs) != canonAll(wantNotifs) {
				c.Violation("stale-or-foreign-diagnostics:"+o.kind, fmt.Sprintf("step %d %s published %v; a fresh server publishes %v", i, o, notifs, wantNotifs), desc(i))
				return false
			}
			if len(notifs) != 1 || !strings.Contains(notifs[0], uriOf(o.uri)) || !strings.Contains(notifs[0], "publishDiagnostics") {
				c.Violation("diagnostics-not-published", fmt.Sprintf("step %d %s published %v", i, o, notifs), desc(i))
				return false
			}
			// independently of any server: exactly the diagnostics of a fresh analysis of that text
			if msg := diagnosticsMatchAnalysis(notifs[0], written); msg != "" {
				c.Violation("diagnostics-differ-from-analysis:"+o.kind, fmt.Sprintf("step %d %s: %s", i, o, msg), desc(i))
				return false
			}
			c.Count("notifications_compared_with_the_analysis", 1)
		} else {
			if len(notifs) != 0 {
				c.Violation("unexpected-notification", fmt.Sprintf("step %d %s (a query) wrote %v to stdout", i, o, notifs), desc(i))
				return false
			}
			if o.kind == "symbols" {
				if msg := symbolsMatchAnalysis(resp, latest[o.uri], hasLatest(latest, o.uri)); msg != "" {
					c.Violation("symbols-differ-from-analysis", fmt.Sprintf("step %d %s: %s", i, o, msg), desc(i))
					return false
				}
				c.Count("symbol_answers_compared_with_the_analysis", 1)
			}
			if writesSoFar >= 2 {
				c.Count("queries_after_two_or_more_writes", 1)
			}
		}
	}
	c.Count("histories_replayed", 1)
	return true
}

func hasLatest(m map[int]string, u int) bool { _, ok := m[u]; return ok }

// diagnosticsMatchAnalysis compares a publishDiagnostics notification with analysis.CheckSource
// of the text: same number of diagnostics, same multiset of (start, end, message).
func diagnosticsMatchAnalysis(notif, text string) string {
	var n struct {
		Params struct {
			Diagnostics []struct {
				Range   lspRange `json:"range"`
				Message string   `json:"message"`
			} `json:"diagnostics"`
		} `json:"params"`
	}
	if err := json.Unmarshal([]byte(notif), &n); err != nil {
		return "the notification is not JSON: " + err.Error()
	}
	var want, got []string
	var res analysis.CheckResult
	if p, _, _ := fw.Catch(func() { res = analysis.CheckSource(text) }); p {
		return ""
	}
	for _, d := range res.Diagnostics {
		msg := ""
		fw.Catch(func() { msg = d.Kind.Message() })
		want = append(want, fmt.Sprintf("%d:%d-%d:%d %s", d.Range.Start.Line, d.Range.Start.Character, d.Range.End.Line, d.Range.End.Character, msg))
	}
	for _, d := range n.Params.Diagnostics {
		got = append(got, fmt.Sprintf("%d:%d-%d:%d %s", d.Range.Start.Line, d.Range.Start.Character, d.Range.End.Line, d.Range.End.Character, d.Message))
	}
	sort.Strings(want)
	sort.Strings(got)
	if strings.Join(want, "\n") != strings.Join(got, "\n") {
		return fmt.Sprintf("published diagnostics %q; a fresh analysis of the text gives %q", got, want)
	}
	return ""
}

// symbolsMatchAnalysis compares a documentSymbol answer with the symbols of a fresh analysis.
func symbolsMatchAnalysis(resp, text string, open bool) string {
	if !open {
		if resp != "null" && resp != "[]" {
			return "symbols answered for a document that was never opened: " + resp
		}
		return ""
	}
	var got []struct {
		Name  string   `json:"name"`
		Range lspRange `json:"range"`
	}
	if resp != "null" {
		if err := json.Unmarshal([]byte(resp), &got); err != nil {
			return "the answer is not a symbol list: " + resp
		}
	}
	var res analysis.CheckResult
	if p, _, _ := fw.Catch(func() { res = analysis.CheckSource(text) }); p {
		return ""
	}
	var w, g []string
	for _, s := range res.GetSymbols() {
		w = append(w, fmt.Sprintf("%s@%d:%d", s.Name, s.Range.Start.Line, s.Range.Start.Character))
	}
	for _, s := range got {
		g = append(g, fmt.Sprintf("%s@%d:%d", s.Name, s.Range.Start.Line, s.Range.Start.Character))
	}
	sort.Strings(w)
	sort.Strings(g)
	if strings.Join(w, " ") != strings.Join(g, " ") {
		return fmt.Sprintf("symbols %v; a fresh analysis of the latest text gives %v", g, w)
	}
	return ""
}

func alphabet() []op {
	var a []op
	for u := 0; u < 2; u++ {
		for t := 0; t < 4; t++ {
			a = append(a, op{kind: "open", uri: u, text: t}, op{kind: "change", uri: u, text: t})
		}
		a = append(a, op{kind: "openplain", uri: u, text: 0}, op{kind: "openplain", uri: u, text: 1})
		a = append(a, op{kind: "openplain", uri: u, text: 4}, op{kind: "openplain", uri: u, text: 5})
		a = append(a, op{kind: "changews", uri: u, text: 1}, op{kind: "changews", uri: u, text: 0}, op{kind: "changews", uri: u, text: 2, pos: 1})
		a = append(a, op{kind: "change2", uri: u, text0: 0, text: 1}, op{kind: "change2", uri: u, text0: 2, text: 0}, op{kind: "change2", uri: u, text0: 1, text: 3})
		for p := 0; p < 2; p++ {
			a = append(a, op{kind: "hover", uri: u, pos: p}, op{kind: "definition", uri: u, pos: p})
		}
		a = append(a, op{kind: "symbols", uri: u}, op{kind: "change0", uri: u})
	}
	return a
}

func runC19(c *fw.Ctx) {
	rn := &runner{c: c}
	al := alphabet()
	na := len(al)
	maxLen := 3
	if !c.Quick {
		maxLen = 4
	}
	idx := 0
	perms := [][]int{{0, 1, 2, 3, 4, 5}, {1, 2, 0, 3, 4, 5}, {0, 3, 1, 2, 4, 5}, {0, 5, 1, 2, 3, 4}}
	for pi, perm := range perms {
		for l := 1; l <= maxLen; l++ {
			if pi > 0 && l > 2 {
				continue // the other URI pairs: exhaustive up to length 2 (longer ones are in the random part)
			}
			total := 1
			for i := 0; i < l; i++ {
				total *= na
			}
			for k := 0; k < total; k++ {
				idx++
				if !c.Want(idx, fmt.Sprintf("exh/%d/%d/%d", pi, l, k)) {
					continue
				}
				uriPerm = perm
				ops := make([]op, l)
				x := k
				writes, lastIsQuery := 0, false
				for j := 0; j < l; j++ {
					ops[j] = al[x%na]
					x /= na
					if ops[j].kind == "open" || ops[j].kind == "change" || ops[j].kind == "change2" || ops[j].kind == "openplain" || ops[j].kind == "changews" {
						writes++
						lastIsQuery = false
					} else {
						lastIsQuery = true
					}
				}
				if !rn.replay(ops, "exhaustive") {
					return
				}
				if writes >= 2 && lastIsQuery {
					var h []string
					for _, o := range ops {
						h = append(h, o.String())
					}
					c.Distinct(strings.Join(h, " "))
				}
			}
		}
	}
	uriPerm = perms[0]
	if c.Want(0, "exh/done") {
		c.Count("exhaustive_spaces_completed", 1)
	}
	// diagnostics that span several lines, published on open and on change
	mi := 0
	for ti := 8; ti <= 11; ti++ {
		for _, ops := range [][]op{
			{{kind: "openplain", uri: 0, text: ti}, {kind: "symbols", uri: 0}},
			{{kind: "open", uri: 0, text: ti}, {kind: "change", uri: 0, text: ti}, {kind: "symbols", uri: 0}},
			{{kind: "open", uri: 0, text: 0}, {kind: "change", uri: 0, text: ti}, {kind: "change", uri: 0, text: 1}, {kind: "change", uri: 0, text: ti}},
			{{kind: "open", uri: 1, text: ti}, {kind: "open", uri: 0, text: 1}, {kind: "change", uri: 1, text: ti}},
		} {
			mi++
			if !c.Want(40_000_000+mi, fmt.Sprintf("multiline/%d/%d", ti, mi)) {
				continue
			}
			if !rn.replay(ops, "multiline") {
				return
			}
			c.Count("multiline_diagnostic_histories", 1)
		}
	}
	// random long histories over 6 URI shapes
	n := c.N(600, 20000)
	for i := 0; i < n; i++ {
		id := "rand/" + itoa(i)
		if !c.Want(50_000_000+i, id) {
			continue
		}
		r := c.Rng(id)
		l := r.Range(5, 200)
		ops := make([]op, l)
		for j := range ops {
			o := op{uri: r.Intn(4), text: []int{0, 1, 2, 3, 6, 6, 7}[r.Intn(7)], text0: r.Intn(4), pos: r.Intn(len(histPositions))}
			o.uri = r.Intn(len(uriShapes))
			o.kind = r.Pick("open", "openplain", "change", "change", "change2", "changews", "changews", "hover", "hover", "definition", "symbols", "change0")
			if o.kind == "openplain" {
				o.text = []int{0, 1, 4, 5, 7}[r.Intn(5)]
			}
			if o.kind == "changews" {
				o.text = r.Intn(len(wsVariants))
			}
			ops[j] = o
		}
		if !rn.replay(ops, "random") {
			return
		}
		c.Distinct(fmt.Sprintf("rand|%d|%d", l, i))
		if c.WantSample() && i%7 == 1 {
			var h []string
			for _, o := range ops[:minInt(12, len(ops))] {
				h = append(h, o.String())
			}
			c.Sample(map[string]any{"case": id, "history_head": h, "length": l})
		}
	}
	// texts that collide under the short checksums a cache might be keyed by (CRC-32, Adler-32,
	// FNV-32): found by a birthday search over variants of one script that differ in a comment
	for pi, pair := range collidingTexts() {
		id := fmt.Sprintf("collision/%s", pair.hash)
		if !c.Want(70_000_000+pi, id) {
			continue
		}
		pos := op{kind: "hover", uri: 0, pos: 0}
		for _, ops := range [][]op{
			{{kind: "openraw", uri: 0, raw: pair.a}, {kind: "changeraw", uri: 0, raw: pair.b}, pos, {kind: "symbols", uri: 0}, {kind: "definition", uri: 0, pos: 1}},
			{{kind: "openraw", uri: 0, raw: pair.a}, {kind: "openraw", uri: 1, raw: pair.b}, {kind: "symbols", uri: 1}, {kind: "hover", uri: 1, pos: 0}, {kind: "symbols", uri: 0}},
			{{kind: "openraw", uri: 0, raw: pair.b}, {kind: "changeraw", uri: 0, raw: pair.a}, {kind: "changeraw", uri: 0, raw: pair.b}, {kind: "symbols", uri: 0}},
		} {
			if !rn.replay(ops, "checksum-collision:"+pair.hash) {
				return
			}
			c.Count("histories_over_texts_with_equal_checksums", 1)
		}
	}
	navigation(c)
}

type textPair struct{ hash, a, b string }

var collisions []textPair

// collidingTexts finds, once per process, pairs of different scripts with equal CRC-32 / Adler-32 /
// FNV-32a / equal length-and-ends. The two scripts of a pair declare different variables, so that
// an answer computed from the other one is visible.
func collidingTexts() []textPair {
	if collisions != nil {
		return collisions
	}
	mk := func(i int) string {
		return fmt.Sprintf("// order %08d\nvars { monetary $amt_%d account $dst }\nsend $amt_%d (source = @world destination = $dst)\n", i*7919%100000000, i%9, i%9)
	}
	type hf struct {
		name string
		f    func(string) uint32
	}
	hs := []hf{
		{"crc32", func(s string) uint32 { return crc32.ChecksumIEEE([]byte(s)) }},
		{"adler32", func(s string) uint32 { return adler32.Checksum([]byte(s)) }},
		{"fnv32a", func(s string) uint32 { h := fnv.New32a(); h.Write([]byte(s)); return h.Sum32() }},
		{"crc32-castagnoli", func(s string) uint32 { return crc32.Checksum([]byte(s), crc32.MakeTable(crc32.Castagnoli)) }},
	}
	for _, h := range hs {
		seen := map[uint32]int{}
		for i := 0; i < 600000; i++ {
			t := mk(i)
			k := h.f(t)
			if j, ok := seen[k]; ok && j%9 != i%9 {
				collisions = append(collisions, textPair{h.name, mk(j), t})
				break
			}
			if _, ok := seen[k]; !ok {
				seen[k] = i
			}
		}
	}
	if collisions == nil {
		collisions = []textPair{}
	}
	return collisions
}

func minInt(a, b int) int {
	if a < b {
		return a
	}
	return b
}

var _ = rng.New
var _ = gen.Print
