package main

import (
	"fmt"
	"math/big"
	"reflect"
	"sort"

	"github.com/formancehq/numscript/internal/parser"
	"github.com/formancehq/numscript/verifharness/gen"
	"github.com/formancehq/numscript/verifharness/model"
)

// cmp walks the generator's tree and the parsed tree in parallel.
type cmp struct {
	p      *gen.Printed
	errs   []string
	kinds  map[string]bool // (node kind, parent kind) pairs whose range was checked
	layout string
}

func (c *cmp) fail(path, format string, a ...any) {
	if len(c.errs) < 5 {
		c.errs = append(c.errs, path+": "+fmt.Sprintf(format, a...))
	}
}

func showRange(r parser.Range) string {
	return fmt.Sprintf("%d:%d-%d:%d", r.Start.Line, r.Start.Character, r.End.Line, r.End.Character)
}

func showSpan(s gen.Span) string {
	return fmt.Sprintf("%d:%d-%d:%d", s.Start.Line, s.Start.Char, s.End.Line, s.End.Char)
}

func (c *cmp) rng(path string, node any, part string, got parser.Range, kind, parent string) {
	sp, ok := c.p.SpanOf(node, part)
	if !ok {
		c.fail(path, "internal: no span recorded for %T/%s", node, part)
		return
	}
	if got.Start.Line != sp.Start.Line || got.Start.Character != sp.Start.Char || got.End.Line != sp.End.Line || got.End.Character != sp.End.Char {
		f, l, _ := c.p.TokRange(node, part)
		c.fail(path, "range of %s is %s but its text %q…%q spans %s", kind, showRange(got), c.p.TokText[f], c.p.TokText[l], showSpan(sp))
		return
	}
	c.kinds[kind+"<"+parent] = true
}

func isNil(x any) bool {
	if x == nil {
		return true
	}
	v := reflect.ValueOf(x)
	return (v.Kind() == reflect.Ptr || v.Kind() == reflect.Interface) && v.IsNil()
}

func (c *cmp) expr(path string, g gen.Expr, p parser.ValueExpr, parent string) {
	if isNil(p) {
		c.fail(path, "expression %T is missing from the parsed tree", g)
		return
	}
	switch g := g.(type) {
	case *gen.Var:
		q, ok := p.(*parser.Variable)
		if !ok {
			c.fail(path, "written $%s, parsed as %T", g.Name, p)
			return
		}
		if q.Name != g.Name {
			c.fail(path, "variable $%s parsed as $%s", g.Name, q.Name)
		}
		c.rng(path, g, "", q.Range, "Variable", parent)
	case *gen.Asset:
		q, ok := p.(*parser.AssetLiteral)
		if !ok {
			c.fail(path, "written asset %s, parsed as %T", g.Name, p)
			return
		}
		if q.Asset != g.Name {
			c.fail(path, "asset %s parsed as %s", g.Name, q.Asset)
		}
		c.rng(path, g, "", q.Range, "AssetLiteral", parent)
	case *gen.Account:
		q, ok := p.(*parser.AccountLiteral)
		if !ok {
			c.fail(path, "written @%s, parsed as %T", g.Name, p)
			return
		}
		if q.Name != g.Name {
			c.fail(path, "account @%s parsed as @%s", g.Name, q.Name)
		}
		c.rng(path, g, "", q.Range, "AccountLiteral", parent)
	case *gen.Str:
		q, ok := p.(*parser.StringLiteral)
		if !ok {
			c.fail(path, "written string %q, parsed as %T", g.S, p)
			return
		}
		if q.String != g.S {
			c.fail(path, "string %q parsed as %q", g.S, q.String)
		}
		c.rng(path, g, "", q.Range, "StringLiteral", parent)
	case *gen.Num:
		want, _ := model.ParseDec(g.Text)
		switch q := p.(type) {
		case *parser.NumberLiteral:
			if want == nil || !want.IsInt64() || int64(q.Number) != want.Int64() {
				c.fail(path, "number %s parsed as %d", g.Text, q.Number)
			}
			c.rng(path, g, "", q.Range, "NumberLiteral", parent)
		default:
			// a wider number node (added by the repair of the big-literal crash); read reflectively
			// so that the harness still builds on a tree without it
			v := reflect.ValueOf(p)
			if v.Kind() == reflect.Ptr && v.Elem().Kind() == reflect.Struct && v.Elem().FieldByName("Number").IsValid() {
				n, ok := v.Elem().FieldByName("Number").Interface().(*big.Int)
				if !ok || n == nil || want == nil || n.Cmp(want) != 0 {
					c.fail(path, "number %s parsed as %v", g.Text, v.Elem().FieldByName("Number").Interface())
				}
				c.rng(path, g, "", p.GetRange(), "NumberLiteral", parent)
			} else {
				c.fail(path, "written number %s, parsed as %T", g.Text, p)
			}
		}
	case *gen.Ratio:
		q, ok := p.(*parser.RatioLiteral)
		if !ok {
			c.fail(path, "written portion %s, parsed as %T", g.Text, p)
			return
		}
		n, d, _ := model.ParseRatioText(g.Text)
		if q.Numerator == nil || q.Denominator == nil || n == nil || q.Numerator.Cmp(n) != 0 || q.Denominator.Cmp(d) != 0 {
			c.fail(path, "portion %q parsed as %v/%v", g.Text, q.Numerator, q.Denominator)
		}
		c.rng(path, g, "", q.Range, "RatioLiteral", parent)
	case *gen.Percent:
		q, ok := p.(*parser.RatioLiteral)
		if !ok {
			c.fail(path, "written portion %s, parsed as %T", g.Text, p)
			return
		}
		want, _ := model.ParsePercentText(g.Text)
		if q.Numerator == nil || q.Denominator == nil || q.Denominator.Sign() == 0 || want == nil ||
			new(big.Rat).SetFrac(q.Numerator, q.Denominator).Cmp(want) != 0 {
			c.fail(path, "portion %q parsed as %v/%v, base-ten meaning %v", g.Text, q.Numerator, q.Denominator, want)
		}
		c.rng(path, g, "", q.Range, "RatioLiteral(%)", parent)
	case *gen.Mon:
		q, ok := p.(*parser.MonetaryLiteral)
		if !ok {
			c.fail(path, "written monetary literal, parsed as %T", p)
			return
		}
		c.rng(path, g, "", q.Range, "MonetaryLiteral", parent)
		c.expr(path+"/asset", g.Asset, q.Asset, "MonetaryLiteral")
		c.expr(path+"/amount", g.Amount, q.Amount, "MonetaryLiteral")
	case *gen.Infix:
		q, ok := p.(*parser.BinaryInfix)
		if !ok {
			c.fail(path, "written infix expression, parsed as %T", p)
			return
		}
		if string(q.Operator) != string(g.Op) {
			c.fail(path, "operator %c parsed as %s", g.Op, q.Operator)
		}
		c.rng(path, g, "", q.Range, "BinaryInfix", parent)
		c.expr(path+"/left", g.L, q.Left, "BinaryInfix")
		c.expr(path+"/right", g.R, q.Right, "BinaryInfix")
	}
}

func (c *cmp) allot(path string, g gen.Allot, p parser.AllotmentValue, parent string) {
	if isNil(p) {
		c.fail(path, "allotment head %T is missing from the parsed tree", g)
		return
	}
	switch g := g.(type) {
	case *gen.AllotLit:
		q, ok := p.(*parser.RatioLiteral)
		if !ok {
			c.fail(path, "written portion literal, parsed as %T", p)
			return
		}
		c.expr(path, g.Lit, q, parent)
	case *gen.AllotVar:
		q, ok := p.(*parser.Variable)
		if !ok {
			c.fail(path, "written portion variable, parsed as %T", p)
			return
		}
		c.expr(path, g.V, q, parent)
	case *gen.AllotRemaining:
		q, ok := p.(*parser.RemainingAllotment)
		if !ok {
			c.fail(path, "written `remaining`, parsed as %T", p)
			return
		}
		c.rng(path, g, "", q.Range, "RemainingAllotment", parent)
	}
}

func (c *cmp) source(path string, g gen.Source, p parser.Source, parent string) {
	if isNil(p) {
		c.fail(path, "source %T is missing from the parsed tree", g)
		return
	}
	switch g := g.(type) {
	case *gen.SrcAccount:
		q, ok := p.(*parser.SourceAccount)
		if !ok {
			c.fail(path, "written account source, parsed as %T", p)
			return
		}
		c.expr(path, g.E, q.ValueExpr, "SourceAccount<"+parent)
	case *gen.SrcOverdraft:
		q, ok := p.(*parser.SourceOverdraft)
		if !ok {
			c.fail(path, "written overdraft source, parsed as %T", p)
			return
		}
		c.rng(path, g, "", q.Range, "SourceOverdraft", parent)
		c.expr(path+"/address", g.Addr, q.Address, "SourceOverdraft")
		if (g.Bounded == nil) != (q.Bounded == nil) {
			c.fail(path, "bounded overdraft written: %v, parsed: %v", g.Bounded != nil, q.Bounded != nil)
		} else if g.Bounded != nil {
			c.expr(path+"/bound", g.Bounded, *q.Bounded, "SourceOverdraft")
		}
	case *gen.SrcInorder:
		q, ok := p.(*parser.SourceInorder)
		if !ok {
			c.fail(path, "written in-order source, parsed as %T", p)
			return
		}
		c.rng(path, g, "", q.Range, "SourceInorder", parent)
		if len(q.Sources) != len(g.Srcs) {
			c.fail(path, "%d sources written, %d parsed", len(g.Srcs), len(q.Sources))
			return
		}
		for i := range g.Srcs {
			c.source(fmt.Sprintf("%s/%d", path, i), g.Srcs[i], q.Sources[i], "SourceInorder")
		}
	case *gen.SrcAllot:
		q, ok := p.(*parser.SourceAllotment)
		if !ok {
			c.fail(path, "written allotment source, parsed as %T", p)
			return
		}
		c.rng(path, g, "", q.Range, "SourceAllotment", parent)
		if len(q.Items) != len(g.Items) {
			c.fail(path, "%d clauses written, %d parsed", len(g.Items), len(q.Items))
			return
		}
		for i, it := range g.Items {
			ip := fmt.Sprintf("%s/%d", path, i)
			c.rng(ip, it, "", q.Items[i].Range, "SourceAllotmentItem", "SourceAllotment")
			c.allot(ip+"/portion", it.A, q.Items[i].Allotment, "SourceAllotmentItem")
			c.source(ip+"/from", it.From, q.Items[i].From, "SourceAllotmentItem")
		}
	case *gen.SrcCapped:
		q, ok := p.(*parser.SourceCapped)
		if !ok {
			c.fail(path, "written capped source, parsed as %T", p)
			return
		}
		c.rng(path, g, "", q.Range, "SourceCapped", parent)
		c.expr(path+"/cap", g.Cap, q.Cap, "SourceCapped")
		c.source(path+"/from", g.From, q.From, "SourceCapped")
	}
}

func (c *cmp) kod(path string, g *gen.KOD, p parser.KeptOrDestination, parent string) {
	if isNil(p) {
		c.fail(path, "kept/destination is missing from the parsed tree")
		return
	}
	if g.Kept {
		q, ok := p.(*parser.DestinationKept)
		if !ok {
			c.fail(path, "written `kept`, parsed as %T", p)
			return
		}
		c.rng(path, g, "", q.Range, "DestinationKept", parent)
		return
	}
	q, ok := p.(*parser.DestinationTo)
	if !ok {
		c.fail(path, "written `to <destination>`, parsed as %T", p)
		return
	}
	c.dest(path, g.To, q.Destination, parent)
}

func (c *cmp) dest(path string, g gen.Dest, p parser.Destination, parent string) {
	if isNil(p) {
		c.fail(path, "destination %T is missing from the parsed tree", g)
		return
	}
	switch g := g.(type) {
	case *gen.DstAccount:
		q, ok := p.(*parser.DestinationAccount)
		if !ok {
			c.fail(path, "written account destination, parsed as %T", p)
			return
		}
		c.expr(path, g.E, q.ValueExpr, "DestinationAccount<"+parent)
	case *gen.DstInorder:
		if len(g.Clauses) == 0 {
			// grammar fact: `{ remaining K }` is an allotment with a single `remaining` clause
			// (first matching alternative), with the same meaning
			if q, ok := p.(*parser.DestinationAllotment); ok {
				c.rng(path, g, "", q.Range, "DestinationAllotment(remaining-only)", parent)
				if len(q.Items) != 1 {
					c.fail(path, "`{remaining …}` parsed with %d clauses", len(q.Items))
					return
				}
				if _, ok := q.Items[0].Allotment.(*parser.RemainingAllotment); !ok {
					c.fail(path, "`{remaining …}` parsed with head %T", q.Items[0].Allotment)
				}
				c.kod(path+"/remaining", g.Remaining, q.Items[0].To, "DestinationAllotment")
				return
			}
		}
		q, ok := p.(*parser.DestinationInorder)
		if !ok {
			c.fail(path, "written in-order destination, parsed as %T", p)
			return
		}
		c.rng(path, g, "", q.Range, "DestinationInorder", parent)
		if len(q.Clauses) != len(g.Clauses) {
			c.fail(path, "%d clauses written, %d parsed", len(g.Clauses), len(q.Clauses))
			return
		}
		for i, cl := range g.Clauses {
			ip := fmt.Sprintf("%s/%d", path, i)
			c.rng(ip, cl, "", q.Clauses[i].Range, "DestinationInorderClause", "DestinationInorder")
			c.expr(ip+"/cap", cl.Cap, q.Clauses[i].Cap, "DestinationInorderClause")
			c.kod(ip+"/to", cl.To, q.Clauses[i].To, "DestinationInorderClause")
		}
		c.kod(path+"/remaining", g.Remaining, q.Remaining, "DestinationInorder")
	case *gen.DstAllot:
		q, ok := p.(*parser.DestinationAllotment)
		if !ok {
			c.fail(path, "written allotment destination, parsed as %T", p)
			return
		}
		c.rng(path, g, "", q.Range, "DestinationAllotment", parent)
		if len(q.Items) != len(g.Items) {
			c.fail(path, "%d clauses written, %d parsed", len(g.Items), len(q.Items))
			return
		}
		for i, it := range g.Items {
			ip := fmt.Sprintf("%s/%d", path, i)
			c.rng(ip, it, "", q.Items[i].Range, "DestinationAllotmentItem", "DestinationAllotment")
			c.allot(ip+"/portion", it.A, q.Items[i].Allotment, "DestinationAllotmentItem")
			c.kod(ip+"/to", it.To, q.Items[i].To, "DestinationAllotmentItem")
		}
	}
}

func (c *cmp) sent(path string, g *gen.SentValue, p parser.SentValue, parent string) {
	if isNil(p) {
		c.fail(path, "sent value is missing from the parsed tree")
		return
	}
	if g.All {
		q, ok := p.(*parser.SentValueAll)
		if !ok {
			c.fail(path, "written [ASSET *], parsed as %T", p)
			return
		}
		c.rng(path, g, "", q.Range, "SentValueAll", parent)
		c.expr(path+"/asset", g.E, q.Asset, "SentValueAll")
		return
	}
	q, ok := p.(*parser.SentValueLiteral)
	if !ok {
		c.fail(path, "written a monetary expression, parsed as %T", p)
		return
	}
	c.rng(path, g, "", q.Range, "SentValueLiteral", parent)
	c.expr(path+"/monetary", g.E, q.Monetary, "SentValueLiteral")
}

func (c *cmp) call(path string, g *gen.Call, q *parser.FnCall, parent string) {
	if q == nil {
		c.fail(path, "function call is missing from the parsed tree")
		return
	}
	c.rng(path, g, "", q.Range, "FnCall", parent)
	if q.Caller == nil {
		c.fail(path, "function name is missing")
		return
	}
	if q.Caller.Name != g.Name {
		c.fail(path, "function %s parsed as %s", g.Name, q.Caller.Name)
	}
	c.rng(path+"/name", g, "caller", q.Caller.Range, "FnCallIdentifier", "FnCall")
	if len(q.Args) != len(g.Args) {
		c.fail(path, "%d arguments written, %d parsed", len(g.Args), len(q.Args))
		return
	}
	for i := range g.Args {
		c.expr(fmt.Sprintf("%s/arg%d", path, i), g.Args[i], q.Args[i], "FnCall")
	}
}

func (c *cmp) script(g *gen.Script, p parser.Program) {
	if len(p.Vars) != len(g.Vars) {
		c.fail("vars", "%d declarations written, %d parsed", len(g.Vars), len(p.Vars))
	} else {
		for i, d := range g.Vars {
			path := fmt.Sprintf("vars/%d", i)
			q := p.Vars[i]
			c.rng(path, d, "", q.Range, "VarDeclaration", "Program")
			if q.Name == nil || q.Name.Name != d.Name {
				c.fail(path, "variable $%s parsed as %v", d.Name, q.Name)
			} else {
				c.rng(path+"/name", d, "name", q.Name.Range, "VarDeclaration.Name", "VarDeclaration")
			}
			if q.Type == nil || q.Type.Name != d.Type {
				c.fail(path, "type %s parsed as %v", d.Type, q.Type)
			} else {
				c.rng(path+"/type", d, "type", q.Type.Range, "TypeDecl", "VarDeclaration")
			}
			if (d.Origin == nil) != (q.Origin == nil) {
				c.fail(path, "origin written: %v, parsed: %v", d.Origin != nil, q.Origin != nil)
			} else if d.Origin != nil {
				c.call(path+"/origin", d.Origin, q.Origin, "VarDeclaration")
			}
		}
	}
	if len(p.Statements) != len(g.Stmts) {
		c.fail("statements", "%d statements written, %d parsed", len(g.Stmts), len(p.Statements))
		return
	}
	for i, st := range g.Stmts {
		path := fmt.Sprintf("stmt%d", i)
		ps := p.Statements[i]
		if isNil(ps) {
			c.fail(path, "statement is missing from the parsed tree")
			continue
		}
		switch st := st.(type) {
		case *gen.Send:
			q, ok := ps.(*parser.SendStatement)
			if !ok {
				c.fail(path, "written send, parsed as %T", ps)
				continue
			}
			c.rng(path, st, "", q.Range, "SendStatement", "Program")
			c.sent(path+"/sent", st.Sent, q.SentValue, "SendStatement")
			c.source(path+"/source", st.Src, q.Source, "SendStatement")
			c.dest(path+"/destination", st.Dst, q.Destination, "SendStatement")
		case *gen.Save:
			q, ok := ps.(*parser.SaveStatement)
			if !ok {
				c.fail(path, "written save, parsed as %T", ps)
				continue
			}
			c.rng(path, st, "", q.Range, "SaveStatement", "Program")
			c.sent(path+"/sent", st.Sent, q.SentValue, "SaveStatement")
			c.expr(path+"/from", st.From, q.Amount, "SaveStatement")
		case *gen.Call:
			q, ok := ps.(*parser.FnCall)
			if !ok {
				c.fail(path, "written function call, parsed as %T", ps)
				continue
			}
			c.call(path, st, q, "Program")
		}
	}
}

// geometry checks, on the parsed tree alone, that every range is well-formed, that children
// lie within their parents and that the children of one construct do not overlap (generic
// reflective walk over everything that carries a Range).
func geometry(prog parser.Program) string {
	rangeT := reflect.TypeOf(parser.Range{})
	le := func(a, b parser.Position) bool {
		return a.Line < b.Line || (a.Line == b.Line && a.Character <= b.Character)
	}
	var problem string
	// walk returns the ranges of the nearest ranged descendants of v (v itself if it is ranged)
	var walk func(v reflect.Value, depth int) []parser.Range
	walk = func(v reflect.Value, depth int) []parser.Range {
		if depth > 600 || problem != "" {
			return nil
		}
		switch v.Kind() {
		case reflect.Interface, reflect.Ptr:
			if v.IsNil() {
				return nil
			}
			return walk(v.Elem(), depth+1)
		case reflect.Slice:
			var out []parser.Range
			for i := 0; i < v.Len(); i++ {
				out = append(out, walk(v.Index(i), depth+1)...)
			}
			return out
		case reflect.Struct:
			var kids []parser.Range
			for i := 0; i < v.NumField(); i++ {
				f := v.Field(i)
				if f.Type() == rangeT || !v.Type().Field(i).IsExported() {
					continue
				}
				kids = append(kids, walk(f, depth+1)...)
			}
			f := v.FieldByName("Range")
			if !f.IsValid() || f.Type() != rangeT {
				return kids
			}
			r := f.Interface().(parser.Range)
			if !le(r.Start, r.End) && problem == "" {
				problem = fmt.Sprintf("%s range %s ends before it starts", v.Type().Name(), showRange(r))
			}
			sort.Slice(kids, func(i, j int) bool { return le(kids[i].Start, kids[j].Start) && kids[i].Start != kids[j].Start })
			for i, k := range kids {
				// the tree's own ordering and containment (Position.GtEq, Range.Contains) must say the same
				if (!r.Contains(k.Start) || !r.Contains(k.End)) && le(r.Start, k.Start) && le(k.End, r.End) && problem == "" {
					problem = fmt.Sprintf("Range.Contains: parent %s %s does not contain the ends of its child %s", v.Type().Name(), showRange(r), showRange(k))
				}
				if i > 0 && le(kids[i-1].End, k.Start) && !k.Start.GtEq(kids[i-1].End) && problem == "" {
					problem = fmt.Sprintf("Position.GtEq: sibling %s does not come after %s", showRange(k), showRange(kids[i-1]))
				}
				if (!le(r.Start, k.Start) || !le(k.End, r.End)) && problem == "" {
					problem = fmt.Sprintf("child range %s is not inside its parent %s %s", showRange(k), v.Type().Name(), showRange(r))
				}
				if i > 0 && !le(kids[i-1].End, k.Start) && problem == "" {
					problem = fmt.Sprintf("sibling ranges %s and %s overlap inside %s", showRange(kids[i-1]), showRange(k), v.Type().Name())
				}
			}
			return []parser.Range{r}
		}
		return nil
	}
	walk(reflect.ValueOf(prog), 0)
	return problem
}
