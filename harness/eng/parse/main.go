// Engine "parse": properties C14 (parser totality) and C15 (round trip of structure, values
// and positions).
package main

import (
	"fmt"
	"strings"
	"sync"

	"github.com/formancehq/numscript"
	"github.com/formancehq/numscript/internal/parser"
	"github.com/formancehq/numscript/verifharness/cfg"
	"github.com/formancehq/numscript/verifharness/fw"
	"github.com/formancehq/numscript/verifharness/gen"
	"github.com/formancehq/numscript/verifharness/rng"
)

func main() {
	fw.Register(propC14(), propC15())
	fw.Main()
}

const trustedBase = "harness generators and printer (DESIGN §4.1–4.2); the repository's generated lexer for tokenisation (C14 oracle only); Go runtime"

func propC14() *fw.Prop {
	return &fw.Prop{
		ID: "C14", Level: "exploration",
		Rule:            "texts = grammar-complete generated scripts under random layouts (valid by construction); for each: truncation at EVERY byte offset, token deletion / insertion / replacement / duplication / swap, byte-level insert / delete / replace incl. non-ASCII and invalid UTF-8, unbalanced brackets, dropped names; numerals of 1–60 digits; token soups over the grammar's alphabet; deep nesting (≤ 200) and long scripts (≤ 64 KiB). Each text goes through numscript.Parse, GetParsingErrors and ParseErrorsToString under a crash guard and a 60 s watchdog; oracle for 'valid ⇔ zero errors' = an independent CFG recogniser for Numscript.g4 over the lexer's tokens; every error must start inside the text or at its end (checked against the harness's own line table, in characters). Distinct = distinct texts, counted separately as valid / invalid.",
		Assumptions:     []string{trustedBase, "termination is restated as bounded progress: a parse of an input ≤ 64 KiB returns within 60 s"},
		Require:         []string{"texts_valid", "texts_invalid", "truncations", "errors_located", "soups", "byte_mutants", "token_mutants"},
		HangIsViolation: true,
		Run:             runC14,
	}
}

// kept results of the last few parses (per worker process): a ParseResult must stay what it was
// when it was returned, whatever is parsed afterwards.
type keptParse struct {
	text   string
	origin string
	pr     numscript.ParseResult
	snap   string
}

var kept []keptParse

func snapshotErrors(errs []numscript.ParserError) string {
	var b strings.Builder
	for _, e := range errs {
		fmt.Fprintf(&b, "%d:%d-%d:%d %s|", e.Range.Start.Line, e.Range.Start.Character, e.Range.End.Line, e.Range.End.Character, e.Msg)
	}
	return b.String()
}

func recheckKept(c *fw.Ctx) bool {
	for _, k := range kept {
		now := ""
		ok := c.Guard("GetParsingErrors(kept)", func() any { return map[string]any{"text": k.text, "origin": k.origin} }, func() {
			errs := k.pr.GetParsingErrors()
			now = snapshotErrors(errs)
			_ = numscript.ParseErrorsToString(errs, k.text)
		})
		if !ok {
			return false
		}
		c.Count("kept_results_rechecked", 1)
		if now != k.snap {
			c.Violation("result-changed-after-later-parse", fmt.Sprintf("the errors of an earlier parse changed after other texts were parsed: were %q, are now %q", k.snap, now),
				map[string]any{"text": k.text, "origin": k.origin})
			return false
		}
	}
	return true
}

// checkText runs every C14 monitor on one text. knownValid: 1 valid by construction, 0 unknown.
func checkText(c *fw.Ctx, text, origin string, knownValid bool) bool {
	input := func() any { return map[string]any{"text": text, "origin": origin, "bytes": len(text)} }
	var pr numscript.ParseResult
	var errs []numscript.ParserError
	if !c.Guard("numscript.Parse", input, func() { pr = numscript.Parse(text) }) {
		return false
	}
	if !c.Guard("GetParsingErrors", input, func() { errs = pr.GetParsingErrors() }) {
		return false
	}
	c.Eval()
	if len(errs) > 0 {
		kept = append(kept, keptParse{text, origin, pr, snapshotErrors(errs)})
		if len(kept) > 3 {
			kept = kept[1:]
		}
	}
	if !recheckKept(c) {
		return false
	}
	var rendered string
	if !c.Guard("ParseErrorsToString", input, func() { rendered = numscript.ParseErrorsToString(errs, text) }) {
		return false
	}
	_ = rendered
	// validity
	valid, decided := knownValid, knownValid
	if len(text) <= 6000 {
		toks, lexOK := cfg.Lex(text)
		if len(toks) <= 900 {
			v := lexOK && cfg.Accepts(toks)
			if knownValid && !v {
				c.Count("recogniser_rejects_generated_script", 1)
				c.Violation("harness:recogniser-vs-generator", "the recogniser, which reads the tokens of the repository's generated lexer, rejects a script the generator produced from the grammar: the lexer no longer tokenises a valid script as the grammar says (or the harness's generator and recogniser disagree)", input())
				return false
			}
			valid, decided = v, true
		}
	}
	if decided {
		if valid {
			c.Count("texts_valid", 1)
			if len(errs) > 0 {
				c.Violation("valid-rejected", fmt.Sprintf("a syntactically valid script is reported with %d error(s); first: %q at %d:%d", len(errs), errs[0].Msg, errs[0].Range.Start.Line, errs[0].Range.Start.Character), input())
				return false
			}
		} else {
			c.Count("texts_invalid", 1)
			if len(errs) == 0 {
				c.Violation("invalid-accepted", "a text outside the grammar is parsed with zero errors", input())
				return false
			}
		}
		v := "i|"
		if valid {
			v = "v|"
		}
		c.Distinct(v + text)
	} else {
		c.Count("texts_validity_undecided_too_long", 1)
	}
	// error positions
	if len(errs) > 0 {
		lines := gen.LineTable(text)
		for _, e := range errs {
			c.Count("errors_located", 1)
			s := e.Range.Start
			if s.Line < 0 || s.Line >= len(lines) || s.Character < 0 || s.Character > lines[s.Line] {
				c.Violation("error-outside-text", fmt.Sprintf("error %q starts at line %d character %d; the text has %d line(s) and that line has %d character(s)",
					e.Msg, s.Line, s.Character, len(lines), lineLen(lines, s.Line)), input())
				return false
			}
		}
	}
	return true
}

func lineLen(lines []int, l int) int {
	if l < 0 || l >= len(lines) {
		return -1
	}
	return lines[l]
}

func synCfg(c *fw.Ctx, r *rng.R) gen.SynCfg {
	d := 3
	if !c.Quick {
		d = 3 + r.Intn(3)
	}
	return gen.SynCfg{Depth: r.Range(1, d), MaxStmts: 4, NonASCII: true, BigNums: true}
}

func runC14(c *fw.Ctx) {
	// regression corpus
	corpus := []string{
		"send [USD 99999999999999999999] (source = @a destination = @b)",
		"send [USD 10] (source = @a destination = { 08% to @b remaining kept })",
		"send [USD 10] (source = @a destination = { 1/0 to @b remaining kept })",
		"set_tx_meta(\"é\", 1) foo(", "vars { monetary", "", " ", "\n", "// c", "/* unterminated", "\"unterminated", "send", "$", "@", "%",
		"vars { number = balance(@a, USD) }", "send [USD *] (source = destination = @b)",
		"\xff\xfe", "é", "send [USD 10] (source = @a destination = @é)",
	}
	for i, t := range corpus {
		if c.Want(i, "corpus/"+itoa(i)) {
			c.Count("corpus_texts", 1)
			if !checkText(c, t, "corpus", false) {
				return
			}
		}
	}
	// generated scripts and their mutants
	n := c.N(800, 12000)
	for i := 0; i < n; i++ {
		id := "syn/" + itoa(i)
		if !c.Want(1000+i, id) {
			continue
		}
		r := c.Rng(id)
		sc := gen.GenSyn(r, synCfg(c, r))
		pr := gen.Print(sc, gen.Layout{Kind: r.Intn(gen.NumLayouts), R: r})
		if !checkText(c, pr.Text, "generated", true) {
			return
		}
		canon := gen.PrintCanonical(sc)
		// truncation at every offset (of the laid-out text)
		for off := 0; off < len(pr.Text); off++ {
			c.Count("truncations", 1)
			if !checkText(c, pr.Text[:off], "truncation", false) {
				return
			}
		}
		toks := canon.TokText
		if len(toks) == 0 {
			continue
		}
		for k := 0; k < 12; k++ {
			c.Count("token_mutants", 1)
			if !checkText(c, gen.MutateTokens(r, toks), "token-mutant", false) {
				return
			}
		}
		for k := 0; k < 12; k++ {
			c.Count("byte_mutants", 1)
			if !checkText(c, gen.MutateBytes(r, pr.Text), "byte-mutant", false) {
				return
			}
		}
		for k := 0; k < 3; k++ {
			if !checkText(c, gen.Unbalance(r, toks), "unbalanced", false) {
				return
			}
			if !checkText(c, gen.DropNames(r, toks), "dropped-name", false) {
				return
			}
		}
		if c.WantSample() && i%37 == 5 {
			c.Sample(map[string]any{"case": id, "generated_text": pr.Text, "mutant": gen.MutateTokens(r, toks), "truncations": len(pr.Text)})
		}
	}
	// numerals of 1..60 digits, in every numeric position
	for d := 1; d <= 60; d++ {
		id := "numeral/" + itoa(d)
		if !c.Want(2_000_000+d, id) {
			continue
		}
		r := c.Rng(id)
		for k := 0; k < 6; k++ {
			digits := make([]byte, d)
			for i := range digits {
				digits[i] = byte('0' + r.Intn(10))
			}
			ds := string(digits)
			for _, t := range []string{
				"send [USD " + ds + "] (source = @a destination = @b)",
				"send [USD -" + ds + "] (source = @a destination = @b)",
				"send [USD 1] (source = @a destination = { " + ds + "/" + ds + " to @b remaining kept })",
				"send [USD 1] (source = @a destination = { " + ds + " / " + ds + " to @b remaining kept })",
				"send [USD 1] (source = @a destination = { 1/ " + ds + " to @b " + ds + " /" + ds + " kept remaining kept })",
				"send [USD 1] (source = @a destination = { 0." + ds + "% to @b remaining kept })",
				"send [USD 1] (source = @a destination = { " + ds + "% to @b remaining kept })",
				"set_tx_meta(\"k\", " + ds + " + " + ds + ")",
				"save [" + ds + " " + ds + "] from @" + ds,
			} {
				c.Count("numeral_texts", 1)
				if !checkText(c, t, "numeral", true) {
					return
				}
			}
		}
	}
	// token soups
	n = c.N(200000, 3000000)
	for i := 0; i < n; i++ {
		id := "soup/" + itoa(i)
		if !c.Want(3_000_000+i, id) {
			continue
		}
		r := c.Rng(id)
		c.Count("soups", 1)
		if !checkText(c, gen.Soup(r, 14), "soup", false) {
			return
		}
	}
	// deep nesting and long scripts
	for depth := 10; depth <= 200; depth += 10 {
		id := "deep/" + itoa(depth)
		if !c.Want(4_000_000+depth, id) {
			continue
		}
		src := strings.Repeat("{ ", depth) + "@a" + strings.Repeat(" }", depth)
		dst := strings.Repeat("{ remaining to ", depth) + "@b" + strings.Repeat(" }", depth)
		mon := strings.Repeat("[ USD ", depth) + "1" + strings.Repeat(" ]", depth)
		capd := strings.Repeat("max [USD 1] from ", depth) + "@a"
		for _, t := range []string{
			"send [USD 1] (source = " + src + " destination = @b)",
			"send [USD 1] (source = @a destination = " + dst + ")",
			"send " + mon + " (source = @a destination = @b)",
			"send [USD 1] (source = " + capd + " destination = @b)",
			"set_tx_meta(\"k\", 1" + strings.Repeat(" + 1", depth) + ")",
		} {
			c.Count("deep_texts", 1)
			if !checkText(c, t, "deep", true) {
				return
			}
			if !checkText(c, t[:len(t)-depth/2-1], "deep-truncated", false) {
				return
			}
		}
	}
	// an error on line L (around powers of ten) of a longer file, with lines before and after it
	for li, L := range []int{0, 1, 8, 9, 10, 11, 98, 99, 100, 101, 998, 999, 1000, 1001} {
		id := "errline/" + itoa(L)
		if !c.Want(4_500_000+li, id) {
			continue
		}
		for _, after := range []int{0, 1, 3} {
			var b strings.Builder
			for i := 0; i < L; i++ {
				b.WriteString("send [USD 10] (source = @a destination = @b)\n")
			}
			b.WriteString(c.Rng(id).Pick("send [USD", "send [USD 10] (source = destination = @b)", "@", "vars {", "send [USD 1] (source = @a destination = @b) )") + "\n")
			for i := 0; i < after; i++ {
				b.WriteString("send [USD 10] (source = @a destination = @b)\n")
			}
			t := b.String()
			if after == 3 {
				t = strings.TrimSuffix(t, "\n")
			}
			c.Count("error_line_texts", 1)
			if !checkText(c, t, "error-at-line", false) {
				return
			}
		}
	}
	// two faults far apart: a statement with a token missing, spread over lines, a block of blank
	// lines that reaches a power of ten somewhere in it, and a character the lexer does not know
	// later in the same statement (the lexer reports its error while the parser is still looking ahead)
	for i := 0; i < c.N(1200, 12000); i++ {
		id := "twoerrors/" + itoa(i)
		if !c.Want(4_600_000+i, id) {
			continue
		}
		r := c.Rng(id)
		toks := strings.Fields("send [ USD 1 ] ( source = @a destination = @b ) set_tx_meta ( \"k\" , 1 )")
		drop := r.Intn(len(toks))
		toks = append(toks[:drop:drop], toks[drop+1:]...)
		g1 := r.Intn(len(toks))
		g2 := g1 + r.Intn(len(toks)-g1)
		if i%2 == 0 {
			// the unknown character right where the token is missing, the blank lines just before it
			// (the token that follows the missing one stays on its line; the blank lines and the
			// unknown character come right after it)
			g1 = drop + 1
			if g1 >= len(toks) {
				g1 = len(toks) - 1
			}
			g2 = g1
		}
		blanks := []int{98, 99, 100, 998, 999, 1000, 1001, 1002, 9998, 9999, 10000, 10001}[r.Intn(12)] - r.Intn(4)
		lead := r.Intn(6)
		var b strings.Builder
		b.WriteString(strings.Repeat("\n", lead))
		for k, t := range toks {
			if k == g1 {
				b.WriteString(strings.Repeat("\n", blanks))
			}
			if k == g2 {
				b.WriteString(r.Pick("#", "?", "~", "!", "\\", "&", "€") + r.Pick(" ", "\n", ""))
			}
			b.WriteString(t)
			b.WriteString(r.Pick(" ", " ", "\n"))
		}
		c.Count("two_fault_texts", 1)
		if !checkText(c, b.String(), "two-faults-far-apart", false) {
			return
		}
	}
	// several goroutines parse and render the errors of DIFFERENT texts at once: each must get
	// what it gets alone
	for i := 0; i < c.N(12, 120); i++ {
		id := "concurrent/" + itoa(i)
		if !c.Want(4_700_000+i, id) {
			continue
		}
		r := c.Rng(id)
		const nG = 8
		texts := make([]string, nG)
		want := make([]string, nG)
		for g := range texts {
			lines := 1 + r.Intn(30)*(g+1)
			texts[g] = strings.Repeat("send [USD 10] (source = @a destination = @b)\n", lines) + r.Pick("send [USD", "send [USD 1] (source = destination = @b)", "@", "vars {", "# é") + "\n" + strings.Repeat("\n", r.Intn(3))
			t := texts[g]
			if !c.Guard("ParseErrorsToString", func() any { return map[string]any{"text": t} }, func() {
				want[g] = numscript.ParseErrorsToString(numscript.Parse(t).GetParsingErrors(), t)
			}) {
				return
			}
		}
		var wg sync.WaitGroup
		bad := make([]string, nG)
		for g := 0; g < nG; g++ {
			wg.Add(1)
			go func(g int) {
				defer wg.Done()
				errs := numscript.Parse(texts[g]).GetParsingErrors()
				for rep := 0; rep < 2000 && bad[g] == ""; rep++ {
					var got string
					p, v, fr := fw.Catch(func() {
						if rep%50 == 0 {
							errs = numscript.Parse(texts[g]).GetParsingErrors()
						}
						got = numscript.ParseErrorsToString(errs, texts[g])
					})
					if p {
						bad[g] = fmt.Sprintf("panic (%s): %v", fr, v)
					} else if got != want[g] {
						bad[g] = fmt.Sprintf("rendered %q; alone it renders %q", got, want[g])
					}
				}
			}(g)
		}
		wg.Wait()
		c.Evals(nG * 2000)
		c.Count("concurrent_parse_and_render_runs", nG*2000)
		for g, m := range bad {
			if m != "" {
				c.Violation("concurrent-render-differs", fmt.Sprintf("while %d goroutines render the errors of different texts: goroutine %d: %s", nG, g, m), map[string]any{"texts": texts, "goroutine": g})
				return
			}
		}
	}
	for _, stmts := range []int{200, 800, 1400} {
		id := "long/" + itoa(stmts)
		if !c.Want(5_000_000+stmts, id) {
			continue
		}
		t := strings.Repeat("send [USD 10] (source = @a destination = @b)\n", stmts)
		if len(t) > 64*1024 {
			t = t[:64*1024]
			t = t[:strings.LastIndex(t, "\n")+1]
		}
		c.Count("long_texts", 1)
		if !checkText(c, t, "long", true) {
			return
		}
		if !checkText(c, t[:len(t)-7], "long-truncated", false) {
			return
		}
	}
}

func itoa(i int) string { return fmt.Sprint(i) }

// ---- C15 ----

func propC15() *fw.Prop {
	return &fw.Prop{
		ID: "C15", Level: "exploration",
		Rule:        "round-trip monitor: grammar-complete generator tree → printed under 6 layouts (single spaces; glued where tokens cannot merge; random blanks/tabs/LF/CRLF; line, block and nested block comments incl. non-ASCII text; one-clause-per-line; all mixed) → parser.Parse → the parsed tree is walked in parallel with the generator's tree: same structure, statement order, cap vs. address, left-associative + and −, declarations and origins, literal values (base-ten numbers, portions as exact rationals, raw strings); every Range must equal the span the printer recorded (first character of the first token to just past the last token, in code points); plus a generic geometric check (children inside parents, siblings disjoint). Distinct = (node kind, parent kind, layout) triples checked with an exact range.",
		Assumptions: []string{trustedBase, "built-in grammar fact: `{remaining K}` is an allotment with a single remaining clause (first alternative)"},
		Require:     []string{"scripts_round_tripped", "nodes_with_exact_range", "non_ascii_scripts", "layouts_used"},
		Run:         runC15,
	}
}

func runC15(c *fw.Ctx) {
	n := c.N(15000, 400000)
	for i := 0; i < n; i++ {
		id := "rt/" + itoa(i)
		if !c.Want(i, id) {
			continue
		}
		r := c.Rng(id)
		sc := gen.GenSyn(r, synCfg(c, r))
		nonASCII := false
		layouts := []gen.Layout{}
		for l := 0; l < gen.NumLayouts; l++ {
			layouts = append(layouts, gen.Layout{Kind: l, R: r})
		}
		if (c.Quick && i%40 == 7) || i%400 == 7 {
			// one or two comments that make a line longer than 65 536 characters
			gaps := map[int]bool{r.Intn(8): true, r.Intn(40): true}
			layouts = append(layouts, gen.Layout{Kind: gen.LayoutLongLine, R: r, Gaps: gaps, Fill: 65500 + r.Intn(70000)})
			c.Count("long_line_layouts", 1)
		}
		for _, lay := range layouts {
			l := lay.Kind
			pr := gen.Print(sc, lay)
			input := func() any {
				if len(pr.Text) > 4096 {
					return map[string]any{"script_canonical": gen.PrintCanonical(sc).Text, "layout": l, "long_comment_gaps": fmt.Sprint(lay.Gaps), "long_comment_fill": lay.Fill}
				}
				return map[string]any{"text": pr.Text, "layout": l}
			}
			// the tree's position ordering must agree with document order on the token starts
			for t := 1; t < len(pr.TokStart); t++ {
				a := parser.Position{Line: pr.TokStart[t-1].Line, Character: pr.TokStart[t-1].Char}
				b := parser.Position{Line: pr.TokStart[t].Line, Character: pr.TokStart[t].Char}
				if !b.GtEq(a) || a.GtEq(b) {
					c.Violation("position-order", fmt.Sprintf("Position.GtEq disagrees with document order: %d:%d comes before %d:%d", a.Line, a.Character, b.Line, b.Character), input())
					return
				}
				c.Count("position_pairs_ordered", 1)
			}
			for _, ch := range pr.Text {
				if ch > 127 {
					nonASCII = true
				}
			}
			var res parser.ParseResult
			if twin := strings.TrimRight(pr.Text, " \t\r\n"); twin != pr.Text && i%2 == 0 {
				// what an editor sends just before: the same text without its trailing blanks
				// (not the same script when it ends in a line comment); parsed first, result unused
				if !c.Guard("parser.Parse", func() any { return map[string]any{"text": twin} }, func() { parser.Parse(twin) }) {
					return
				}
				c.Count("near_identical_texts_parsed_just_before", 1)
			}
			if !c.Guard("parser.Parse", input, func() { res = parser.Parse(pr.Text) }) {
				return
			}
			c.Eval()
			if len(res.Errors) > 0 {
				c.Violation("valid-rejected", fmt.Sprintf("a generated script is reported with errors under layout %d: %q", l, res.Errors[0].Msg), input())
				return
			}
			k := &cmp{p: pr, kinds: map[string]bool{}}
			var geo string
			if !c.Guard("compare", input, func() {
				k.script(sc, res.Value)
				geo = geometry(res.Value)
			}) {
				return
			}
			if len(k.errs) > 0 {
				sig := "tree-differs"
				if strings.Contains(k.errs[0], "range of") {
					sig = "range-differs"
				}
				c.Violation(sig, strings.Join(k.errs, " ⏎ "), input())
				return
			}
			if geo != "" {
				c.Violation("geometry", geo, input())
				return
			}
			c.Count("layouts_used", 1)
			c.Count("nodes_with_exact_range", len(k.kinds))
			for kd := range k.kinds {
				c.Distinct(fmt.Sprintf("%s|L%d", kd, l))
			}
		}
		c.Count("scripts_round_tripped", 1)
		if nonASCII {
			c.Count("non_ascii_scripts", 1)
		}
		if c.WantSample() && i%41 == 3 {
			pr := gen.Print(sc, gen.Layout{Kind: gen.LayoutComments, R: r})
			c.Sample(map[string]any{"case": id, "text_layout_comments": pr.Text, "tokens": len(pr.TokText)})
		}
	}
}
