package main

import "github.com/formancehq/numscript/verifharness/fw"

func registerMore() {
	fw.Register(propC06(), propC09(), propC10(), propC11(), propC12(), propC13())
}
