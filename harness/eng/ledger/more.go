package main

func registerMore() {}
