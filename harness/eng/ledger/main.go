// Engine "ledger": properties C01–C13 (execution semantics of the interpreter).
package main

import (
	"strings"

	"github.com/formancehq/numscript/verifharness/fw"
	"github.com/formancehq/numscript/verifharness/gen"
	"github.com/formancehq/numscript/verifharness/real"
)

func main() {
	fw.Register(propC01(), propC02(), propC03(), propC04(), propC05(), propC07(), propC08())
	registerMore()
	fw.Main()
}

const trustedBase = "harness generators, printer and reference semantics (DESIGN §4); Go runtime; observation at numscript.Parse/Run and the harness-owned Store only"

// ledgerWorkload runs corpus + stratified random cases through mon.
func ledgerWorkload(c *fw.Ctx, strata []stratum, total int, mon func(e *exec, stratum string)) {
	idx := 0
	for i, cs := range corpus() {
		id := "corpus/" + itoa(i)
		if c.Want(idx, id) {
			if e, ok := run(c, cs); ok {
				c.Count("stratum_corpus", 1)
				mon(e, "corpus")
			}
		}
		idx++
	}
	forEachCase(strata, total, func(i int, id string, st *stratum, k int) {
		if !c.Want(idx+i, id) {
			return
		}
		cs := genCaseM(c.Rng(id), st.cfg)
		e, ok := run(c, cs)
		if !ok {
			return
		}
		c.Count("stratum_"+st.name, 1)
		mon(e, st.name)
		if e2, ok := rerunVaried(c, e); ok {
			mon(e2, st.name)
		}
		if k%3 == 1 {
			// the same case against the library's own StaticStore, which answers with every asset an
			// account holds whatever was asked: the reference outcome is the same
			e3 := *e
			e3.out, e3.store = real.RunCase(e.parse.Result, cs, real.Static)
			c.Eval()
			c.Count("static_store_reruns", 1)
			mon(&e3, st.name)
		}
		if c.WantSample() && (k%7 == 3) {
			c.Sample(map[string]any{"case": id, "input": e.input(), "real_outcome": e.out.Summary(), "store_calls": len(e.out.Calls)})
		}
	})
	// allotments whose `remaining` clause is not the last one (the grammar and the interpreter accept it
	// anywhere): source and destination allotments, nested, with kept, several accounts
	extra := []stratum{
		{"rem-anywhere", with(func(c *gen.LCfg) {
			c.Accounts = []string{"a", "b", "c", "d"}
			c.Assets = []string{"USD"}
			c.PRemaining, c.PRemAnywhere, c.PSrcAllot, c.PDstAllot, c.PKept, c.PWorld, c.PUnbounded, c.PFunded = 85, 80, 45, 45, 25, 5, 5, 85
			c.MaxStmts, c.Depth = 2, 2
		}), 2},
		{"rem-anywhere-deep", with(func(c *gen.LCfg) {
			c.Assets = []string{"USD", "COIN"}
			c.PRemaining, c.PRemAnywhere, c.PSrcAllot, c.PDstAllot, c.PKept, c.PSrcSeq, c.PDstSeq = 85, 80, 35, 35, 20, 30, 30
			c.MaxStmts, c.Depth = 3, 3
		}), 1},
	}
	forEachCase(extra, total/20+30, func(i int, id string, st *stratum, k int) {
		if !c.Want(idx+50_000_000+i, id) {
			return
		}
		cs := genCaseM(c.Rng(id), st.cfg)
		e, ok := run(c, cs)
		if !ok {
			return
		}
		c.Count("stratum_rem_anywhere", 1)
		mon(e, st.name)
	})
}

func propC01() *fw.Prop {
	return &fw.Prop{
		ID: "C01", Level: "exploration",
		Rule:        "stratified seeded generator of executable scripts (DESIGN §4.1) + regression corpus; each successful run's postings are replayed in order on the starting sheet and every non-exempt account is checked against min(start, −largest granted overdraft) after every posting. A case is non-trivial when a non-exempt account is debited; distinct = (stratum, script shape skeleton, whether the final balance sits exactly on the bound). Added in later rounds to every ledger workload: strata with 40..80-account pools and flat sources of up to 70 entries, world-like and colon-joined names, aligned sends, two assets with store-read amounts; numbers written with leading zeros; one parse result run a second time with other variable values and compared with the reference again.",
		Assumptions: []string{trustedBase, "overdraft grants are read off the generator's own tree with the model's expression evaluator"},
		Require:     []string{"runs_succeeded", "nontrivial_debiting_runs", "tight_cases", "stratum_repeat", "stratum_negbal", "stratum_save", "stratum_chains"},
		Run: func(c *fw.Ctx) {
			ledgerWorkload(c, ledgerStrata(), c.N(120000, 3000000), func(e *exec, s string) { monC01(c, e, s) })
		},
	}
}

func hostileNames(c *fw.Ctx, startIdx int, n int, mon func(e *exec, stratum string)) {
	names := []string{"", "<kept>", "a b", "a\nb", "world ", "@a", "a:", ":a", "é", "a::b", "<kept>x", " "}
	for i := 0; i < n; i++ {
		id := "hostile/" + itoa(i)
		if !c.Want(startIdx+i, id) {
			continue
		}
		r := c.Rng(id)
		cfg := base()
		cfg.PVarAcct = 60
		cfg.Assets = []string{"USD"}
		cs := genCase(r, cfg)
		// overwrite one or two account variables (or add a meta-origin account) with a hostile name
		var acctVars []string
		for _, d := range cs.Script.Vars {
			if d.Type == "account" && d.Origin == nil {
				acctVars = append(acctVars, d.Name)
			}
		}
		if len(acctVars) == 0 {
			continue
		}
		bad := names[r.Intn(len(names))]
		v := acctVars[r.Intn(len(acctVars))]
		if r.Chance(1, 3) {
			// through metadata
			for _, d := range cs.Script.Vars {
				if d.Name == v {
					d.Origin = &gen.Call{Name: "meta", Args: []gen.Expr{gen.A("cfg"), gen.S("acct")}}
				}
			}
			delete(cs.Vars, v)
			cs.Meta["cfg"] = map[string]string{"acct": bad}
		} else {
			cs.Vars[v] = bad
		}
		e, ok := run(c, cs)
		if !ok {
			continue
		}
		c.Count("stratum_hostile_names", 1)
		if e.out.OK() {
			c.Count("hostile_name_runs_succeeded", 1)
		} else {
			c.Count("hostile_name_runs_rejected", 1)
		}
		mon(e, "hostile")
	}
}

// oversum: allotments whose literal / variable portions add up to more than one next to a
// `remaining` clause (in any position), in sources and destinations. The properties do not say
// what such a script means; accepted outcomes are a typed error or postings that are all real
// transfers.
func oversum(c *fw.Ctx, startIdx int, n int, mon func(e *exec, stratum string)) {
	for i := 0; i < n; i++ {
		id := "oversum/" + itoa(i)
		if !c.Want(startIdx+i, id) {
			continue
		}
		r := c.Rng(id)
		k := r.Range(2, 4)
		rem := r.Intn(k)
		den := int64(r.Range(2, 9))
		heads := make([]gen.Allot, k)
		vars := map[string]string{}
		var decls []*gen.VarDecl
		for j := 0; j < k; j++ {
			if j == rem {
				heads[j] = &gen.AllotRemaining{}
				continue
			}
			num := int64(r.Range(1, int(den)))
			if j == (rem+1)%k {
				num = den - int64(r.Intn(2)) // close to or exactly one: the total exceeds one with the others
			}
			txt := itoa(int(num)) + "/" + itoa(int(den))
			if r.Chance(1, 3) {
				name := "p" + itoa(j)
				decls = append(decls, &gen.VarDecl{Type: "portion", Name: name})
				vars[name] = txt
				heads[j] = &gen.AllotVar{V: gen.V(name)}
			} else {
				heads[j] = &gen.AllotLit{Lit: &gen.Ratio{Text: txt}}
			}
		}
		sc := &gen.Script{Vars: decls}
		amt := gen.M("USD", gen.SmallOrBig(r, 5).String())
		if r.Bool() {
			d := &gen.DstAllot{}
			for j, h := range heads {
				d.Items = append(d.Items, &gen.DstAllotItem{A: h, To: gen.To(gen.DA("d" + itoa(j)))})
			}
			sc.Stmts = []gen.Stmt{&gen.Send{Sent: &gen.SentValue{E: amt}, Src: gen.SA("world"), Dst: d}}
		} else {
			s := &gen.SrcAllot{}
			for j, h := range heads {
				var from gen.Source = &gen.SrcOverdraft{Addr: gen.A("d" + itoa(j))}
				if r.Chance(1, 3) {
					from = gen.SA("world")
				}
				s.Items = append(s.Items, &gen.SrcAllotItem{A: h, From: from})
			}
			sc.Stmts = []gen.Stmt{&gen.Send{Sent: &gen.SentValue{E: amt}, Src: s, Dst: gen.DA("z")}}
		}
		cs := mkCase(sc, vars, nil)
		e, ok := run(c, cs)
		if !ok {
			continue
		}
		c.Count("stratum_oversum", 1)
		if e.out.OK() {
			c.Count("oversum_runs_succeeded", 1)
		} else {
			c.Count("oversum_runs_rejected", 1)
		}
		mon(e, "oversum")
	}
}

func propC02() *fw.Prop {
	return &fw.Prop{
		ID: "C02", Level: "exploration",
		Rule:        "same workload as C01 plus negative/zero caps, kept-heavy destinations and account names arriving through variables/metadata that are empty, the kept marker or outside the account grammar; every posting of every successful run is inspected (amount > 0, names non-empty / not the kept marker / named by the script, asset = asset of the producing statement, attributed by executing every prefix of the script). Non-trivial = successful run with ≥ 1 posting; distinct = (stratum, script shape skeleton).",
		Assumptions: []string{trustedBase},
		Require:     []string{"postings_inspected", "postings_attributed", "stratum_kept", "stratum_caps", "stratum_hostile_names", "stratum_oversum"},
		Run: func(c *fw.Ctx) {
			n := c.N(120000, 3000000)
			ledgerWorkload(c, ledgerStrata(), n, func(e *exec, s string) { monC02(c, e, s, false) })
			hostileNames(c, n+1000, c.N(8000, 100000), func(e *exec, s string) { monC02(c, e, s, true) })
			oversum(c, n+2_000_000, c.N(4000, 100000), func(e *exec, s string) { monC02(c, e, s, false) })
		},
	}
}

func modelProp(id string, proj projection, rule string, require []string, extra func(c *fw.Ctx, e *exec, s string)) *fw.Prop {
	return &fw.Prop{
		ID: id, Level: "exploration", Rule: rule,
		Assumptions: []string{trustedBase, "choices the properties leave open are resolved as documented in DESIGN §4.3; cases the properties do not determine are skipped and counted"},
		Require:     append([]string{"agreed_successes", "agreed_failures", "statements_compared"}, require...),
		Run: func(c *fw.Ctx) {
			ledgerWorkload(c, ledgerStrata(), c.N(120000, 3000000), func(e *exec, s string) {
				if compareModel(c, e, proj) && extra != nil {
					extra(c, e, s)
				}
			})
			if id == "C04" {
				sweepC04(c)
				drainDirect(c)
			}
			if id == "C05" {
				sweepC05(c)
			}
			if id == "C07" {
				reconcileDirect(c)
			}
		},
	}
}

func propC03() *fw.Prop {
	return modelProp("C03", projTotals,
		"stratified generator with fixed amounts tuned onto the supply frontier (S−1, S, S+1, 0, S/2, ≫S as computed by the reference semantics); oracle = reference draw: success ⇔ sources supply n, Σ postings of the statement = n − kept, zero result on error. Non-trivial = fixed-amount send whose need is within 1 of the supply or with kept > 0; distinct = (stratum, shape, relation need/supply, kept>0).",
		[]string{"frontier_cases", "agreed_failure_missing_funds"},
		func(c *fw.Ctx, e *exec, s string) {
			in := e.c
			for i, st := range in.Script.Stmts {
				sd, ok := st.(*gen.Send)
				if !ok || sd.Sent.All {
					continue
				}
				rel := "far"
				if e.mod.Fail != nil && e.mod.FailedStmt == i && e.mod.Fail.Kind == "missing_funds" {
					rel = "short"
				}
				if i < len(e.mod.Stmts) {
					ms := e.mod.Stmts[i]
					for _, b := range ms.Binding {
						if b == "tight" {
							rel = "tight"
						}
					}
					if ms.Kept.Sign() > 0 {
						rel += "+kept"
					}
				}
				if rel != "far" {
					c.Count("frontier_cases", 1)
					c.Distinct(s + "|" + shapeKey(in.Script) + "|" + itoa(i) + rel)
				}
			}
		})
}

func propC04() *fw.Prop {
	return modelProp("C04", projRows,
		"stratified generator + small-scope exhaustive sweep of source trees (≤ 3 leaves over 2 accounts, balances −2..3, caps −1..3, need 0..6, overdraft none/0/1/2/unbounded) in fixed and send-all mode; oracle = per-account debit totals of each statement vs. the reference greedy draw (minus units withheld by kept). Distinct = (tree shape, vector of binding constraints per leaf/cap).",
		[]string{"exhaustive_spaces_completed"},
		func(c *fw.Ctx, e *exec, s string) {
			for i, ms := range e.mod.Stmts {
				if ms.Kind == "send" || ms.Kind == "sendall" {
					c.Distinct(shapeKey(e.c.Script) + "|" + itoa(i) + strings.Join(ms.Binding, ","))
				}
			}
		})
}

func propC05() *fw.Prop {
	return modelProp("C05", projCols,
		"stratified generator + exhaustive sweep of ordered destinations (≤ 3 clauses, caps −1..4, kept in any position, amounts 0..8) fed by @world; oracle = per-account credit totals vs. the reference distribution and credited + kept = sent. Distinct = (destination shape, which clauses saturate).",
		[]string{"exhaustive_spaces_completed"},
		func(c *fw.Ctx, e *exec, s string) {
			for i, ms := range e.mod.Stmts {
				if ms.Kind == "send" || ms.Kind == "sendall" {
					c.Distinct(shapeKey(e.c.Script) + "|" + itoa(i) + strings.Join(ms.DstBinding, ","))
				}
			}
		})
}

func propC07() *fw.Prop {
	return modelProp("C07", projMatrix,
		"(i) end-to-end: whole source×destination flow matrix of every statement vs. the reference FIFO pairing of the draw list with the distribution list; (ii) interpreter.Reconcile called directly on exhaustively enumerated sender/receiver lists (≤ 3×3, amounts 1..3, kept in any position) and random longer ones. Distinct = (lengths, interleaving pattern of sender/receiver boundaries, kept positions).",
		[]string{"reconcile_direct_calls", "exhaustive_spaces_completed"},
		func(c *fw.Ctx, e *exec, s string) {
			for _, ms := range e.mod.Stmts {
				if len(ms.Draws) > 0 && len(ms.Dists) > 0 {
					c.Distinct(splitPattern(ms.Draws, ms.Dists))
				}
			}
		})
}

func propC08() *fw.Prop {
	p := modelProp("C08", projMatrix,
		"every placement of 1–2 saves among 1–3 sends over 2 accounts with balances {negative, 0, <n, =n, >n}, save [A *], saves of another asset, bounded overdraft on the saved account (stratified random + corpus); oracle = reference semantics with the save rule (visible balance lowered, floored at zero, negative balances untouched) compared on the full flow matrix of the later statements. Distinct = (placement/shape, relation of balance to saved amount) where a later statement draws from the saved account.",
		[]string{"save_then_draw_cases"},
		nil)
	p.Run = func(c *fw.Ctx) { runC08(c) }
	return p
}
