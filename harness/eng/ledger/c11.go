package main

import (
	"context"
	"fmt"
	"math/big"
	"runtime"
	"strings"
	"sync"
	"sync/atomic"

	"github.com/formancehq/numscript"
	"github.com/formancehq/numscript/verifharness/fw"
	"github.com/formancehq/numscript/verifharness/gen"
	"github.com/formancehq/numscript/verifharness/model"
	"github.com/formancehq/numscript/verifharness/real"
)

func propC11() *fw.Prop {
	return &fw.Prop{
		ID: "C11", Level: "exploration",
		Rule:        "engine built with -race (GORACE halt_on_error=0, reports collected from the log and de-duplicated by innermost repository frames). Per generated case: (i) repetition — the case is run 3× against fresh stores and the results compared structurally (map iteration order varies between runs); (ii) purity — deep renderings of the variables map, of every map the harness store handed out and of the bundled StaticStore's own maps are compared before/after; (iii) concurrency — G goroutines × M runs share ONE ParseResult, ONE variables map and either ONE StaticStore or per-goroutine harness stores that yield inside GetBalances (the library's only suspension point); every concurrent result is compared with the sequential one; (iv) flags — {nil, {}, {unknown flag}, {overdraft flag}} must give identical results unless the script calls overdraft(). Distinct = scripts run concurrently (by shape and outcome). Also: meta() on an account or key the store does not hold (24 cases: 6 types × 4 store contents) — sequential and 8 goroutines on one StaticStore; the store's maps must be left as they were.",
		Assumptions: []string{trustedBase, "the race detector reports unsynchronised conflicting accesses it observes (happens-before), on the executions driven"},
		Require:     []string{"concurrent_runs", "repetition_groups", "purity_checks", "flag_variations", "static_store_shared_runs", "max_inflight_overlap_at_store", "metadata_not_found_runs"},
		MaxWorkers:  8,
		Run:         runC11,
	}
}

var bg = context.Background()

// the raw result of an earlier case (not copied), re-examined after later runs
var (
	keptRes   numscript.ExecutionResult
	keptSum   string
	keptInput any
)

func summarize(res numscript.ExecutionResult, err numscript.InterpreterError) string {
	return real.Summarize(res, err)
}

// respelled gives the case's variables with other spellings of the same values: portions are
// scaled (1/2 → 7/14, 50% → 50.000%), numbers and amounts get leading zeros.
func respelled(cs *gen.Case, salt int) numscript.VariablesMap {
	out := numscript.VariablesMap{}
	for k, v := range cs.Vars {
		out[k] = v
	}
	kf := int64(salt%9973 + 2)
	zeros := strings.Repeat("0", salt%5+1)
	for _, d := range cs.Script.Vars {
		raw, ok := cs.Vars[d.Name]
		if !ok {
			continue
		}
		switch d.Type {
		case "portion":
			if n, dd, ok := model.ParseRatioText(raw); ok && dd.Sign() != 0 {
				out[d.Name] = new(big.Int).Mul(n, big.NewInt(kf)).String() + "/" + new(big.Int).Mul(dd, big.NewInt(kf)).String()
			} else if strings.HasSuffix(raw, "%") {
				body := strings.TrimSuffix(raw, "%")
				if !strings.Contains(body, ".") {
					body += "."
				}
				out[d.Name] = body + strings.Repeat("0", salt%23+1) + "%"
			}
		case "number":
			if !strings.HasPrefix(raw, "-") {
				out[d.Name] = zeros + raw
			}
		case "monetary":
			if i := strings.IndexByte(raw, ' '); i > 0 && !strings.HasPrefix(raw[i+1:], "-") {
				out[d.Name] = raw[:i+1] + zeros + raw[i+1:]
			}
		}
	}
	return out
}

func renderVars(v map[string]string) string { return fmt.Sprint(v) }

func renderStatic(b numscript.Balances, m numscript.AccountsMetadata) string {
	out := map[string]map[string]string{}
	for a, mm := range b {
		out[a] = map[string]string{}
		for k, v := range mm {
			if v == nil {
				out[a][k] = "nil"
			} else {
				out[a][k] = v.String()
			}
		}
	}
	return fmt.Sprint(out) + "|" + fmt.Sprint(m)
}

// coldCase: G goroutines run one parse result at once as the first executions of this process;
// every result must equal the one a sequential run gives afterwards.
func coldCase(c *fw.Ctx, id string, k int, strata []stratum) {
	r := c.Rng(id)
	cfg := strata[k%len(strata)].cfg
	cfg.PPortionVar, cfg.PVarAmt, cfg.PVarAcct, cfg.PDstAllot, cfg.PSrcAllot = 60, 60, 50, 40, 25
	cs := genCase(r, cfg)
	if r.Bool() {
		addMetaOrigin(cs, r.Intn(9))
	}
	// a percentage with an unusual number of decimals, which this process has not read before
	cs.Script.Vars = append(cs.Script.Vars, &gen.VarDecl{Type: "portion", Name: "cold_p"})
	cs.Vars["cold_p"] = "12.5" + strings.Repeat("0", []int{0, 17, 18, 40, 61, 62, 63, 64, 65, 100, 500, 1020, 1021, 1022, 1500}[k%15]) + "%"
	cs.Script.Stmts = append(cs.Script.Stmts, &gen.Send{Sent: &gen.SentValue{E: gen.M("USD", "10")}, Src: gen.SA("world"),
		Dst: &gen.DstAllot{Items: []*gen.DstAllotItem{{A: &gen.AllotVar{V: gen.V("cold_p")}, To: gen.To(gen.DA("cold"))}, {A: &gen.AllotRemaining{}, To: &gen.KOD{Kept: true}}}}})
	cs.Tune = append(cs.Tune, nil)
	txt := gen.PrintCanonical(cs.Script).Text
	po := real.Parse(txt)
	if po.Panicked || len(po.Errors) > 0 {
		return
	}
	flags := real.FlagsOf(cs)
	const nG = 8
	outs := make([]string, nG)
	var wg sync.WaitGroup
	start := make(chan struct{})
	for g := 0; g < nG; g++ {
		wg.Add(1)
		go func(g int) {
			defer wg.Done()
			vm := numscript.VariablesMap{}
			for kk, v := range cs.Vars {
				vm[kk] = v
			}
			st := real.NewStore(real.Exact, cs.Balances, cs.Meta)
			<-start
			p, v, fr := fw.Catch(func() {
				res, err := po.Result.RunWithFeatureFlags(bg, vm, st, flags)
				outs[g] = summarize(res, err)
			})
			if p {
				outs[g] = fmt.Sprintf("panic (%s): %v", fr, v)
			}
		}(g)
	}
	close(start)
	wg.Wait()
	c.Evals(nG)
	st := real.NewStore(real.Exact, cs.Balances, cs.Meta)
	var ref string
	fw.Catch(func() {
		res, err := po.Result.RunWithFeatureFlags(bg, cs.Vars, st, flags)
		ref = summarize(res, err)
	})
	for g, o := range outs {
		if o != ref {
			c.Violation("cold-concurrent-result-differs", fmt.Sprintf("first runs of a process, %d at once: goroutine %d: %s ⏎ a sequential run afterwards: %s", nG, g, o, ref), cs.Describe())
			return
		}
	}
	c.Count("cold_start_concurrent_runs", nG)
	c.Distinct("cold|" + shapeKey(cs.Script))
}

func runC11(c *fw.Ctx) {
	strata := c10Strata()
	for i := range strata {
		if strata[i].name == "huge-accounts" {
			// every case is run some 200 times under the race detector: lists of up to 170
			// accounts here (the thousands are C10's and the ledger checks' business)
			strata[i].cfg.Ladder = false
			strata[i].cfg.Accounts = manyAccounts(170)
			strata[i].cfg.Fanout = 170
		}
	}
	nG, nM := 8, 6
	if !c.Quick {
		nG, nM = 16, 12
	}
	// ---- (0) cold start: the very first runs of a process are concurrent ones (each of these
	// cases is executed in a process of its own, before anything has been run sequentially) ----
	for k := 0; k < c.N(32, 320); k++ {
		id := "cold/" + itoa(k)
		if !c.Want(90_000_000+k, id) {
			continue
		}
		if c.RunIsolated(id) {
			c.Count("cases_run_in_a_process_of_their_own", 1)
			continue
		}
		coldCase(c, id, k, strata)
	}
	// ---- (0') metadata that is not there: the account is unknown to the store, or known without the
	// key, or the store holds no metadata at all — the runs fail with a metadata-not-found error, and the store's maps must be left as they were, also when
	// several goroutines share one StaticStore ----
	for k := 0; k < 24; k++ {
		id := "meta-absent/" + itoa(k)
		if !c.Want(95_000_000+k, id) {
			continue
		}
		metaAbsentCase(c, id, k, nG)
	}
	forEachCase(strata, c.N(4000, 60000), func(i int, id string, st *stratum, k int) {
		if !c.Want(i, id) {
			return
		}
		r := c.Rng(id)
		cs := genCase(r, st.cfg)
		for m := r.Intn(5) - 2; m > 0; m-- {
			addMetaOrigin(cs, r.Intn(9))
		}
		txt := gen.PrintCanonical(cs.Script).Text
		po := real.Parse(txt)
		if po.Panicked || len(po.Errors) > 0 {
			c.Count("generated_script_parse_rejected", 1)
			return
		}
		input := func(extra string) any {
			d := cs.Describe()
			if extra != "" {
				d["note"] = extra
			}
			return d
		}
		flags := real.FlagsOf(cs)
		// ---- (i) repetition + (ii) purity, sequential ----
		varsBefore := renderVars(cs.Vars)
		var ref string
		for rep := 0; rep < 3; rep++ {
			st := real.NewStore(real.Exact, cs.Balances, cs.Meta)
			st.Keep = true
			o := real.Run(po.Result, cs.Vars, flags, st)
			c.Eval()
			if o.Panicked {
				c.Violation("panic:"+o.Frame, "panic: "+o.PanicVal, input(""))
				return
			}
			if rep == 0 {
				ref = o.Summary()
			} else if s := o.Summary(); s != ref {
				c.Violation("nondeterministic", fmt.Sprintf("run 1: %s ⏎ run %d: %s", ref, rep+1, s), input(""))
				return
			}
			if msg := st.ReturnedUnchanged(); msg != "" {
				c.Violation("store-maps-modified", msg, input(""))
				return
			}
			c.Count("purity_checks", 1)
		}
		c.Count("repetition_groups", 1)
		// two variables with texts that cannot be read: which failure is reported must not vary
		if k%5 == 2 {
			var plain []*gen.VarDecl
			for _, d := range cs.Script.Vars {
				if d.Origin == nil && len(hostileByType[d.Type]) > 0 {
					plain = append(plain, d)
				}
			}
			if len(plain) >= 2 {
				bad := map[string]string{}
				for kk, v := range cs.Vars {
					bad[kk] = v
				}
				a, b := plain[r.Intn(len(plain))], plain[r.Intn(len(plain))]
				for b == a {
					b = plain[r.Intn(len(plain))]
				}
				for _, d := range []*gen.VarDecl{a, b} {
					hs := hostileByType[d.Type]
					bad[d.Name] = hs[r.Intn(len(hs))].text
				}
				first := ""
				for rep := 0; rep < 16; rep++ {
					st := real.NewStore(real.Exact, cs.Balances, cs.Meta)
					o := real.Run(po.Result, bad, flags, st)
					c.Eval()
					sum := o.Summary() + " " + o.ErrText
					if o.Panicked {
						sum = "panic " + o.PanicVal
					}
					if rep == 0 {
						first = sum
					} else if sum != first {
						d := cs.Describe()
						d["vars"] = bad
						c.Violation("nondeterministic-error", fmt.Sprintf("the same inputs (two unreadable variable texts): run 1: %s ⏎ run %d: %s", first, rep+1, sum), d)
						return
					}
				}
				c.Count("repetitions_with_two_unreadable_variables", 1)
			}
		}
		// a result handed out earlier (previous case) must still be what it was
		if keptSum != "" {
			if now := real.Summarize(keptRes, nil); now != keptSum {
				c.Violation("earlier-result-changed", fmt.Sprintf("the result returned for an earlier script changed after later runs: was %s ⏎ is now %s", keptSum, now), map[string]any{"earlier_case": keptInput, "later_case": input("")})
				return
			}
			c.Count("kept_results_rechecked", 1)
		}
		{
			st := real.NewStore(real.Exact, cs.Balances, cs.Meta)
			res, err := po.Result.RunWithFeatureFlags(bg, cs.Vars, st, flags)
			if err == nil {
				keptRes, keptSum, keptInput = res, real.Summarize(res, nil), input("")
			}
		}
		// the variables map handed to Run directly (no copy made by the harness)
		{
			vm := numscript.VariablesMap{}
			for k, v := range cs.Vars {
				vm[k] = v
				// entries the script does not declare (other spellings of the names, unrelated keys)
				vm["$"+k] = "unrelated " + v
			}
			vm[""], vm["unused_extra"], vm["$"] = "x", "USD 1", "y"
			before := fmt.Sprint(vm)
			ss := real.NewStore(real.Static, cs.Balances, cs.Meta)
			sb, sm := ss.StaticContent()
			stBefore := renderStatic(sb, sm)
			var out string
			p, v, fr := fw.Catch(func() {
				res, err := po.Result.RunWithFeatureFlags(bg, vm, ss, flags)
				out = summarize(res, err)
			})
			c.Eval()
			if p {
				c.Violation("panic:"+fr, fmt.Sprint("panic: ", v), input("static store"))
				return
			}
			if fmt.Sprint(vm) != before || renderVars(cs.Vars) != varsBefore {
				c.Violation("vars-modified", fmt.Sprintf("variables map before %s, after %s", before, fmt.Sprint(vm)), input(""))
				return
			}
			if now := renderStatic(sb, sm); now != stBefore {
				c.Violation("static-store-modified", fmt.Sprintf("StaticStore content before the run: %s ⏎ after: %s", stBefore, now), input("static store"))
				return
			}
			if out != ref {
				c.Violation("nondeterministic", fmt.Sprintf("harness store: %s ⏎ StaticStore: %s", ref, out), input("static store"))
				return
			}
			c.Count("purity_checks", 1)
		}
		// ---- (i') the same ParseResult on other inputs in between: A, B, A ----
		{
			other := genCase(c.Rng(id+"/other"), st.cfg)
			alt := *cs
			alt.Balances = other.Balances
			oB, _ := real.RunCase(po.Result, &alt, real.Exact)
			poFresh := real.Parse(txt)
			if !poFresh.Panicked && len(poFresh.Errors) == 0 {
				oBfresh, _ := real.RunCase(poFresh.Result, &alt, real.Exact)
				if oB.Summary() != oBfresh.Summary() {
					c.Violation("history-dependent", fmt.Sprintf("other balances on the already-used ParseResult: %s ⏎ on a fresh parse: %s", oB.Summary(), oBfresh.Summary()), input("second input: "+fmt.Sprint(alt.Describe()["balances"])))
					return
				}
			}
			oA, _ := real.RunCase(po.Result, cs, real.Exact)
			c.Evals(3)
			if oA.Summary() != ref {
				c.Violation("history-dependent", fmt.Sprintf("after running other inputs in between, the first inputs give %s instead of %s", oA.Summary(), ref), input("second input: "+fmt.Sprint(alt.Describe()["balances"])))
				return
			}
			c.Count("interleaved_input_checks", 1)
		}
		// ---- (iv) flags ----
		callsOverdraft := false
		for _, d := range cs.Script.Vars {
			if d.Origin != nil && d.Origin.Name == "overdraft" {
				callsOverdraft = true
			}
		}
		if !callsOverdraft {
			for fi, fl := range []map[string]struct{}{nil, {}, {"some-unknown-flag": {}}, {"experimental-overdraft-function": {}}, {"experimental-overdraft-function": {}, "x": {}}} {
				st := real.NewStore(real.Exact, cs.Balances, cs.Meta)
				o := real.Run(po.Result, cs.Vars, fl, st)
				c.Eval()
				c.Count("flag_variations", 1)
				if s := o.Summary(); s != ref {
					c.Violation("flag-dependent", fmt.Sprintf("flag set #%d %v changes the result: %s ⏎ instead of %s", fi, fl, s, ref), input(""))
					return
				}
			}
		}
		// ---- (iii) concurrency ----
		respell := k%3 == 1 // every concurrent run gets equal-valued but differently spelled variable texts
		shared := k%2 == 0  // stratum a: one StaticStore shared by all goroutines
		sharedVars := numscript.VariablesMap{}
		for k, v := range cs.Vars {
			sharedVars[k] = v
		}
		var sharedStore *real.Store
		if shared {
			sharedStore = real.NewStore(real.Static, cs.Balances, cs.Meta)
		}
		var inflight, maxInflight atomic.Int64
		var wg sync.WaitGroup
		var mu sync.Mutex
		var bad string
		start := make(chan struct{})
		for g := 0; g < nG; g++ {
			wg.Add(1)
			go func(g int) {
				defer wg.Done()
				<-start
				for m := 0; m < nM; m++ {
					var st numscript.Store
					if shared {
						// the bundled store itself (what a caller who reuses one StaticStore does)
						b, mt := sharedStore.StaticContent()
						st = numscript.StaticStore{Balances: b, Meta: mt}
					} else {
						hs := real.NewStore(real.Exact, cs.Balances, cs.Meta)
						hs.OnBalances = func() {
							n := inflight.Add(1)
							for {
								old := maxInflight.Load()
								if n <= old || maxInflight.CompareAndSwap(old, n) {
									break
								}
							}
							runtime.Gosched()
							if (g+m)%3 == 0 {
								runtime.Gosched()
							}
							inflight.Add(-1)
						}
						st = hs
					}
					var out string
					vm := sharedVars
					if respell {
						vm = respelled(cs, g*1000+m+int(c.Seed%97)*100000+i*7)
					}
					p, v, fr := fw.Catch(func() {
						res, err := po.Result.RunWithFeatureFlags(bg, vm, st, flags)
						out = summarize(res, err)
					})
					mu.Lock()
					if p && bad == "" {
						bad = fmt.Sprintf("panic in a concurrent run (%s): %v", fr, v)
					} else if out != ref && bad == "" {
						bad = fmt.Sprintf("goroutine %d run %d: %s ⏎ sequential: %s", g, m, out, ref)
					}
					mu.Unlock()
				}
			}(g)
		}
		close(start)
		wg.Wait()
		c.Evals(nG * nM)
		c.Count("concurrent_runs", nG*nM)
		c.Count("concurrent_goroutines_started", nG)
		if respell {
			c.Count("concurrent_runs_on_respelled_inputs", nG*nM)
		}
		if shared {
			c.Count("static_store_shared_runs", nG*nM)
		} else {
			c.Max("inflight_overlap_at_store", int(maxInflight.Load()))
		}
		if bad != "" {
			c.Violation("concurrent-result-differs", bad, input(fmt.Sprintf("shared StaticStore: %v", shared)))
			return
		}
		c.Distinct(shapeKey(cs.Script) + "|" + ref)
		if c.WantSample() && k%5 == 1 {
			c.Sample(map[string]any{"case": id, "input": input(""), "goroutines": nG, "runs_per_goroutine": nM, "shared_static_store": shared, "outcome": ref})
		}
	})
}

// metaAbsentCase: meta() on an account / key the store does not hold.
func metaAbsentCase(c *fw.Ctx, id string, k int, nG int) {
	typ := []string{"account", "string", "number", "monetary", "portion", "asset"}[k%6]
	meta := map[string]map[string]string{}
	switch (k / 6) % 4 {
	case 0: // the account is unknown, other accounts have metadata
		meta["other"] = map[string]string{"k": "x"}
	case 1: // the account is known, the key is not
		meta["ghost"] = map[string]string{"other_key": "x"}
	case 2: // no metadata at all
	case 3: // the account has an empty entry
		meta["ghost"] = map[string]string{}
	}
	sc := &gen.Script{Vars: []*gen.VarDecl{{Type: typ, Name: "m", Origin: &gen.Call{Name: "meta", Args: []gen.Expr{gen.A("ghost"), gen.S("k")}}}},
		Stmts: []gen.Stmt{&gen.Send{Sent: &gen.SentValue{E: gen.M("USD", "10")}, Src: gen.SA("world"), Dst: gen.DA("x")},
			&gen.Call{Name: "set_tx_meta", Args: []gen.Expr{gen.S("seen"), gen.V("m")}}}}
	cs := mkCase(sc, nil, map[string]string{"a/USD": "5"})
	cs.Meta = meta
	input := func(note string) any {
		d := cs.Describe()
		d["note"] = note
		return d
	}
	po := real.Parse(gen.PrintCanonical(sc).Text)
	if po.Panicked || len(po.Errors) > 0 {
		return // cannot happen: the script is fixed text; "metadata_not_found_runs" stays 0 and the Require list reports it
	}
	flags := real.FlagsOf(cs)
	// sequential, harness store that remembers what it handed out, and the bundled StaticStore
	var ref string
	for rep := 0; rep < 2; rep++ {
		st := real.NewStore(real.Exact, cs.Balances, cs.Meta)
		st.Keep = true
		o := real.Run(po.Result, cs.Vars, flags, st)
		c.Eval()
		if o.Panicked {
			c.Violation("panic:"+o.Frame, "panic: "+o.PanicVal, input("exact store"))
			return
		}
		if rep == 0 {
			ref = o.Summary()
		} else if s := o.Summary(); s != ref {
			c.Violation("nondeterministic", fmt.Sprintf("run 1: %s ⏎ run 2: %s", ref, s), input("exact store"))
			return
		}
		if msg := st.ReturnedUnchanged(); msg != "" {
			c.Violation("store-maps-modified", msg, input("exact store, metadata not found"))
			return
		}
	}
	ss := real.NewStore(real.Static, cs.Balances, cs.Meta)
	sb, sm := ss.StaticContent()
	before := renderStatic(sb, sm)
	for rep := 0; rep < 2; rep++ {
		var out string
		p, v, fr := fw.Catch(func() {
			res, err := po.Result.RunWithFeatureFlags(bg, numscript.VariablesMap{}, ss, flags)
			out = summarize(res, err)
		})
		c.Eval()
		if p {
			c.Violation("panic:"+fr, fmt.Sprint("panic: ", v), input("static store"))
			return
		}
		if now := renderStatic(sb, sm); now != before {
			c.Violation("static-store-modified", fmt.Sprintf("StaticStore content before the run: %s ⏎ after: %s (the run: %s)", before, now, out), input("static store, metadata not found"))
			return
		}
	}
	// concurrent failing runs on ONE StaticStore (the race detector watches the store's maps)
	shared := numscript.StaticStore{Balances: sb, Meta: sm}
	outs := make([]string, nG)
	var wg sync.WaitGroup
	start := make(chan struct{})
	for g := 0; g < nG; g++ {
		wg.Add(1)
		go func(g int) {
			defer wg.Done()
			<-start
			for m := 0; m < 4; m++ {
				p, v, fr := fw.Catch(func() {
					res, err := po.Result.RunWithFeatureFlags(bg, numscript.VariablesMap{}, shared, flags)
					outs[g] = summarize(res, err)
				})
				if p {
					outs[g] = fmt.Sprintf("panic (%s): %v", fr, v)
					return
				}
			}
		}(g)
	}
	close(start)
	wg.Wait()
	c.Evals(nG * 4)
	for g := 1; g < nG; g++ {
		if outs[g] != outs[0] {
			c.Violation("concurrent-result-differs", fmt.Sprintf("goroutine 0: %s ⏎ goroutine %d: %s", outs[0], g, outs[g]), input("shared static store, metadata not found"))
			return
		}
	}
	if now := renderStatic(sb, sm); now != before {
		c.Violation("static-store-modified", fmt.Sprintf("StaticStore content before the concurrent runs: %s ⏎ after: %s", before, now), input("shared static store, metadata not found"))
		return
	}
	c.Count("metadata_not_found_runs", 4+nG*4)
	c.Distinct("meta-absent|" + typ + "|" + itoa((k/6)%4))
}
