package main

import (
	"fmt"
	"sort"
	"strings"

	"github.com/formancehq/numscript/verifharness/fw"
	"github.com/formancehq/numscript/verifharness/gen"
	"github.com/formancehq/numscript/verifharness/model"
	"github.com/formancehq/numscript/verifharness/real"
)

func propC10() *fw.Prop {
	return &fw.Prop{
		ID: "C10", Level: "exploration",
		Rule:        "differential monitor: every generated case (scripts mixing balance()/overdraft()/meta() variable origins — which trigger early store requests — with later sources, saves and sources reached through variables; dense non-zero balance sheets) is executed against four harness-owned stores {exact: precisely the requested pairs; sparse: omits absent/zero entries; superset: whole content; static: the bundled StaticStore} and the four (result | error class) must be identical; the recorded query log must never name @world, and every (account, asset) pair the reference semantics actually drew from must have been requested. Distinct = scripts that made ≥ 2 balance requests or requested ≥ 2 pairs, keyed by shape and request pattern.",
		Assumptions: []string{trustedBase},
		Require:     []string{"four_way_comparisons", "runs_with_two_or_more_balance_requests", "runs_with_origin_variables", "balance_queries_recorded", "metadata_queries_recorded"},
		Run:         runC10,
	}
}

func c10Strata() []stratum {
	dense := func(c *gen.LCfg) { c.PAbsent = 3; c.POriginVar = 45 }
	return []stratum{
		{"origins", with(func(c *gen.LCfg) {
			dense(c)
			c.Accounts = []string{"a", "b", "c"}
			c.Assets = []string{"USD", "COIN"}
			c.MaxStmts, c.PWorld, c.PUnbounded = 4, 8, 10
		}), 5},
		{"origins-save", with(func(c *gen.LCfg) {
			dense(c)
			c.Accounts = []string{"a", "b"}
			c.Assets = []string{"USD", "COIN"}
			c.PSave, c.MinStmts, c.MaxStmts, c.Depth = 35, 2, 5, 1
		}), 3},
		{"vars", with(func(c *gen.LCfg) {
			dense(c)
			c.PVarAcct, c.PVarAmt = 70, 50
		}), 3},
		{"general", with(func(c *gen.LCfg) { c.PAbsent = 3 }), 2},
		{"sparse-sheet", with(func(c *gen.LCfg) { c.PAbsent = 50; c.POriginVar = 30 }), 2},
		{"many-accounts", with(func(c *gen.LCfg) {
			c.Accounts = manyAccounts(50)
			c.Assets = []string{"USD", "COIN"}
			c.Depth, c.Fanout, c.MaxStmts, c.PAbsent, c.PRepeat = 2, 48, 3, 10, 5
			c.PSrcSeq, c.PSrcAllot, c.PWorld, c.POriginVar, c.PLongSrc = 60, 15, 5, 20, 30
		}), 2},
		{"huge-accounts", with(func(c *gen.LCfg) {
			// more than 128 accounts asked for in one request
			c.Accounts = manyAccounts(1300)
			c.Assets = []string{"USD"}
			c.Ladder = true
			c.Depth, c.Fanout, c.MinStmts, c.MaxStmts, c.PAbsent, c.PRepeat, c.PLongSrc, c.PFunded, c.PWorld, c.PVarAcct = 1, 1300, 1, 2, 5, 2, 100, 90, 2, 1
		}), 1},
		{"concat", with(func(c *gen.LCfg) {
			c.Accounts = []string{"user", "userA", "a", "aB", "ab", "abT", "a:b"}
			c.Assets = []string{"USD", "AUSD", "BTC", "TC", "C", "b:USD"}
			c.MultiAsset = true
			c.MinStmts, c.MaxStmts, c.Depth, c.PSrcSeq, c.PWorld, c.PAbsent, c.POriginVar = 2, 5, 1, 45, 4, 3, 25
		}), 1},
		{"biglits", with(func(c *gen.LCfg) {
			c.Accounts = []string{"a", "b"}
			c.Assets = []string{"USD"}
			c.PBig, c.PVarAmt, c.PDstSeq, c.PSrcSeq, c.PWorld, c.PAbsent = 70, 8, 60, 40, 25, 3
			c.MaxStmts, c.Depth = 3, 2
		}), 5},
	}
}

func manyAccounts(n int) []string {
	out := make([]string, n)
	for i := range out {
		out[i] = fmt.Sprintf("src:%02d", i)
	}
	return out
}

// addMetaOrigin rewrites one plain variable of the case into a meta()-origin variable.
func addMetaOrigin(cs *gen.Case, pick int) bool {
	var plain []*gen.VarDecl
	for _, d := range cs.Script.Vars {
		if d.Origin == nil {
			plain = append(plain, d)
		}
	}
	if len(plain) == 0 {
		return false
	}
	d := plain[pick%len(plain)]
	// the metadata lives on one of the accounts (and under one of the keys) that the script's
	// own set_account_meta statements write to, or on a separate account
	acct, key := "cfg", "key_"+d.Name
	if pick%4 == 3 {
		// account / key pairs whose concatenations collide: u:1 + k == u + 1:k
		used := map[string]bool{}
		for _, e := range cs.Script.Vars {
			if e.Origin != nil && e.Origin.Name == "meta" && len(e.Origin.Args) == 2 {
				if a, ok := e.Origin.Args[0].(*gen.Account); ok {
					used[a.Name] = true
				}
			}
		}
		for i := 0; i < 2; i++ {
			j := (pick/4 + i) % 2
			if cand := []string{"u:1", "u"}[j]; !used[cand] {
				acct, key = cand, []string{"k", "1:k"}[j]
				break
			}
		}
	} else if pick%3 != 0 {
		acct = []string{"a", "b", "c"}[pick%3]
		key = []string{"k", "k2", "memo"}[(pick/3)%3]
		for _, e := range cs.Script.Vars {
			if e.Origin != nil && e.Origin.Name == "meta" {
				acct, key = "cfg", "key_"+d.Name // one shared entry only
			}
		}
	}
	d.Origin = &gen.Call{Name: "meta", Args: []gen.Expr{gen.A(acct), gen.S(key)}}
	if cs.Meta[acct] == nil {
		cs.Meta[acct] = map[string]string{}
	}
	cs.Meta[acct][key] = cs.Vars[d.Name]
	// unrelated metadata the store also holds
	cs.Meta[acct]["unrelated"] = "zzz"
	cs.Meta["other"] = map[string]string{key: "USD 999"}
	delete(cs.Vars, d.Name)
	return true
}

func queryPairs(calls []real.StoreCall) (pairs map[model.Pair]bool, nBal, nMeta int, world bool) {
	pairs = map[model.Pair]bool{}
	for _, cl := range calls {
		if cl.Kind == "balances" {
			nBal++
			for a, assets := range cl.Query {
				if a == "world" {
					world = true
				}
				for _, as := range assets {
					pairs[model.Pair{Src: a, Dst: as}] = true
				}
			}
		} else {
			nMeta++
		}
	}
	return
}

func runC10(c *fw.Ctx) {
	forEachCase(c10Strata(), c.N(100000, 2000000), func(i int, id string, st *stratum, k int) {
		if !c.Want(i, id) {
			return
		}
		r := c.Rng(id)
		cs := genCase(r, st.cfg)
		for m := r.Intn(6) - 2; m > 0; m-- { // 0..3 metadata-backed variables
			if addMetaOrigin(cs, r.Intn(9)) {
				cs.Tags["meta-origin"] = true
			}
		}
		c.Count("stratum_"+st.name, 1)
		txt := gen.PrintCanonical(cs.Script).Text
		po := real.Parse(txt)
		if po.Panicked || len(po.Errors) > 0 {
			c.Count("generated_script_parse_rejected", 1)
			return
		}
		input := func(extra map[string]any) any {
			d := cs.Describe()
			for k, v := range extra {
				d[k] = v
			}
			return d
		}
		var outs [real.NumStoreKinds]*real.Outcome
		for kind := real.StoreKind(0); kind < real.NumStoreKinds; kind++ {
			outs[kind], _ = real.RunCase(po.Result, cs, kind)
			c.Eval()
			if outs[kind].Panicked {
				c.Violation("panic:"+outs[kind].Frame, fmt.Sprintf("panic with the %s store: %s", kind, outs[kind].PanicVal), input(nil))
				return
			}
		}
		c.Count("four_way_comparisons", 1)
		ref := outs[real.Exact].Summary()
		for kind := real.Sparse; kind < real.NumStoreKinds; kind++ {
			if s := outs[kind].Summary(); s != ref {
				c.Violation("store-dependent:"+kind.String(), fmt.Sprintf("exact store: %s ⏎ %s store: %s", ref, kind, s),
					input(map[string]any{"queries_exact": renderCalls(outs[real.Exact].Calls), "queries_" + kind.String(): renderCalls(outs[kind].Calls)}))
				return
			}
		}
		// query log
		for kind := real.StoreKind(0); kind < real.NumStoreKinds; kind++ {
			pairs, nb, nm, world := queryPairs(outs[kind].Calls)
			c.Count("balance_queries_recorded", nb)
			c.Count("metadata_queries_recorded", nm)
			if world {
				c.Violation("world-requested", fmt.Sprintf("the balance of @world was requested (%s store)", kind),
					input(map[string]any{"queries": renderCalls(outs[kind].Calls)}))
				return
			}
			if kind == real.Exact {
				mod := model.Run(cs.Script, real.ToInput(cs))
				if mod.Undetermined == "" && outs[kind].OK() && mod.Fail == nil {
					// every pair the reference semantics actually drew a positive amount from, or
					// that a variable origin read, must have been asked for
					used := map[model.Pair]bool{}
					for _, ms := range mod.Stmts {
						for _, d := range ms.Draws {
							if mod.Needed[model.Pair{Src: d.Name, Dst: ms.Asset}] {
								used[model.Pair{Src: d.Name, Dst: ms.Asset}] = true
							}
						}
					}
					for p := range used {
						if !pairs[p] {
							c.Violation("used-not-requested", fmt.Sprintf("(%s, %s) was drawn from but its balance was never requested", p.Src, p.Dst),
								input(map[string]any{"queries": renderCalls(outs[kind].Calls)}))
							return
						}
					}
				}
				origin := false
				for _, d := range cs.Script.Vars {
					if d.Origin != nil {
						origin = true
					}
				}
				if origin {
					c.Count("runs_with_origin_variables", 1)
				}
				if nb >= 2 {
					c.Count("runs_with_two_or_more_balance_requests", 1)
				}
				if nb >= 2 || len(pairs) >= 2 {
					ks := make([]string, 0, len(pairs))
					for p := range pairs {
						ks = append(ks, p.Src+"/"+p.Dst)
					}
					sort.Strings(ks)
					c.Distinct(shapeKey(cs.Script) + "|" + itoa(nb) + "|" + strings.Join(ks, ","))
				}
			}
		}
		if c.WantSample() && k%9 == 2 {
			c.Sample(map[string]any{"case": id, "input": input(map[string]any{"queries_exact": renderCalls(outs[real.Exact].Calls)}), "outcome_all_four_stores": ref})
		}
	})
}

func renderCalls(calls []real.StoreCall) []string {
	var out []string
	for _, cl := range calls {
		ks := make([]string, 0, len(cl.Query))
		for a, v := range cl.Query {
			vs := append([]string(nil), v...)
			sort.Strings(vs)
			ks = append(ks, a+":["+strings.Join(vs, ",")+"]")
		}
		sort.Strings(ks)
		out = append(out, fmt.Sprintf("#%d %s {%s}", cl.Seq, cl.Kind, strings.Join(ks, " ")))
	}
	return out
}
