package main

import (
	"fmt"
	"math/big"
	"sort"
	"strings"

	"github.com/formancehq/numscript/verifharness/fw"
	"github.com/formancehq/numscript/verifharness/gen"
	"github.com/formancehq/numscript/verifharness/model"
	"github.com/formancehq/numscript/verifharness/real"
	"github.com/formancehq/numscript/verifharness/rng"
)

// exec is one case executed by the real interpreter and by the model.
type exec struct {
	c      *gen.Case
	text   string
	parse  real.ParseOutcome
	out    *real.Outcome
	store  *real.Store
	mod    *model.Result
	grants *model.Grants
	// perStmt[i] = real postings attributed to statement i (nil when attribution was not done
	// or failed).
	perStmt [][]real.Posting
	// firstVars: this execution is a second run of one parse result; these were the variables of
	// the first run
	firstVars map[string]string
}

func (e *exec) input() any {
	d := e.c.Describe()
	d["script"] = e.text
	if e.firstVars != nil {
		d["second_run_of_the_same_parse_result_first_run_had_vars"] = e.firstVars
	}
	return d
}

// run parses and executes a case (exact store) and evaluates the model. ok=false: the case
// could not be executed at all (parse rejected the generated script or panicked) — counted,
// not a verdict for ledger properties.
func run(c *fw.Ctx, cs *gen.Case) (*exec, bool) {
	e := &exec{c: cs}
	// the layout (blanks, line breaks, comments between tokens) varies with the case; execution
	// must not care
	canon := gen.PrintCanonical(cs.Script).Text
	lr := rng.New(c.Seed, "layout|"+canon)
	e.text = canon
	if lr.Chance(1, 2) {
		e.text = gen.Print(cs.Script, gen.Layout{Kind: lr.Intn(gen.NumLayouts), R: lr}).Text
	}
	e.parse = real.Parse(e.text)
	if e.parse.Panicked {
		c.Count("generated_script_parse_panicked", 1)
		return e, false
	}
	if len(e.parse.Errors) > 0 {
		c.Count("generated_script_parse_rejected", 1)
		return e, false
	}
	e.out, e.store = real.RunCase(e.parse.Result, cs, real.Exact)
	e.mod = model.Run(cs.Script, real.ToInput(cs))
	c.Eval()
	return e, true
}

// rerunVaried runs the parse result of e a second time with other values for some of its plain
// variables (portions, amounts, numbers) and evaluates the model for the new values: a parsed
// program is meant to be run many times with different variables.
func rerunVaried(c *fw.Ctx, e *exec) (*exec, bool) {
	r := rng.New(c.Seed, "vary|"+e.text)
	if !r.Chance(1, 3) {
		return nil, false
	}
	cs2 := *e.c
	cs2.Vars = map[string]string{}
	for k, v := range e.c.Vars {
		cs2.Vars[k] = v
	}
	changed := false
	for _, d := range e.c.Script.Vars {
		old, has := e.c.Vars[d.Name]
		if d.Origin != nil || !has || !r.Chance(2, 3) {
			continue
		}
		switch d.Type {
		case "portion":
			nv := r.Pick("0/1", "1/1", "1/2", "1/3", "25%", "10%", "70%", "3/7", "0%", "100%")
			if p, _ := model.PortionOfText(old); p != nil && r.Bool() {
				nv = new(big.Rat).Sub(big.NewRat(1, 1), p).String() // the complement
				if !strings.Contains(nv, "/") {
					nv += "/1"
				}
			}
			if nv != old {
				cs2.Vars[d.Name], changed = nv, true
			}
		case "number", "monetary":
			i := strings.LastIndexByte(old, ' ') + 1
			n, ok := new(big.Int).SetString(old[i:], 10)
			if !ok {
				continue
			}
			switch r.Intn(4) {
			case 0:
				n.Add(n, big.NewInt(1))
			case 1:
				n.Sub(n, big.NewInt(1))
			case 2:
				n.Rsh(n, 1)
			default:
				n.Add(n, gen.SmallOrBig(r, 10))
			}
			cs2.Vars[d.Name], changed = old[:i]+n.String(), true
		}
	}
	if !changed {
		return nil, false
	}
	e2 := &exec{c: &cs2, text: e.text, parse: e.parse, firstVars: e.c.Vars}
	e2.out, e2.store = real.RunCase(e.parse.Result, &cs2, real.Exact)
	e2.mod = model.Run(cs2.Script, real.ToInput(&cs2))
	c.Eval()
	c.Count("second_runs_of_a_parse_result_with_other_variables", 1)
	return e2, true
}

// attribute fills perStmt by executing every proper prefix of the script.
func (e *exec) attribute(c *fw.Ctx) bool {
	if e.perStmt != nil {
		return true
	}
	if !e.out.OK() {
		return false
	}
	n := len(e.c.Script.Stmts)
	per := make([][]real.Posting, n)
	prev := 0
	for k := 1; k <= n; k++ {
		var ps []real.Posting
		if k == n {
			ps = e.out.Postings
		} else {
			pc := *e.c
			pc.Script = model.Prefix(e.c.Script, k)
			txt := gen.PrintCanonical(pc.Script).Text
			po := real.Parse(txt)
			if po.Panicked || len(po.Errors) > 0 {
				c.Count("attribution_failed", 1)
				return false
			}
			o, _ := real.RunCase(po.Result, &pc, real.Exact)
			c.Eval()
			if !o.OK() {
				c.Count("attribution_failed", 1)
				return false
			}
			ps = o.Postings
		}
		if len(ps) < prev {
			c.Count("attribution_failed", 1)
			return false
		}
		// must extend the previous prefix
		full := e.out.Postings
		if len(ps) > len(full) {
			c.Count("attribution_failed", 1)
			return false
		}
		for i := range ps {
			if ps[i].String() != full[i].String() {
				c.Count("attribution_failed", 1)
				return false
			}
		}
		per[k-1] = ps[prev:]
		prev = len(ps)
	}
	e.perStmt = per
	return true
}

func flowsOf(ps []real.Posting) map[model.Pair]*big.Int {
	f := map[model.Pair]*big.Int{}
	for _, p := range ps {
		k := model.Pair{Src: p.Src, Dst: p.Dst}
		if f[k] == nil {
			f[k] = new(big.Int)
		}
		f[k].Add(f[k], p.Amt)
	}
	return f
}

func rowSums(f map[model.Pair]*big.Int) map[string]*big.Int {
	r := map[string]*big.Int{}
	for k, v := range f {
		if r[k.Src] == nil {
			r[k.Src] = new(big.Int)
		}
		r[k.Src].Add(r[k.Src], v)
	}
	return r
}

func colSums(f map[model.Pair]*big.Int) map[string]*big.Int {
	r := map[string]*big.Int{}
	for k, v := range f {
		if r[k.Dst] == nil {
			r[k.Dst] = new(big.Int)
		}
		r[k.Dst].Add(r[k.Dst], v)
	}
	return r
}

func total(f map[model.Pair]*big.Int) *big.Int {
	t := new(big.Int)
	for _, v := range f {
		t.Add(t, v)
	}
	return t
}

func showSums(m map[string]*big.Int) string {
	ks := make([]string, 0, len(m))
	for k, v := range m {
		if v.Sign() != 0 {
			ks = append(ks, k)
		}
	}
	sort.Strings(ks)
	var b strings.Builder
	for _, k := range ks {
		fmt.Fprintf(&b, "%s:%s ", k, m[k])
	}
	return strings.TrimSpace(b.String())
}

func showFlows(f map[model.Pair]*big.Int) string {
	var b strings.Builder
	for _, k := range model.SortedPairs(f) {
		if f[k].Sign() != 0 {
			fmt.Fprintf(&b, "%s->%s:%s ", k.Src, k.Dst, f[k])
		}
	}
	return strings.TrimSpace(b.String())
}

func equalSums(a, b map[string]*big.Int) bool { return showSums(a) == showSums(b) }

func equalFlows(a, b map[model.Pair]*big.Int) bool { return showFlows(a) == showFlows(b) }

// outcomeAgrees compares the class of the real outcome with the model's verdict. It returns a
// description of the disagreement, or "".
func (e *exec) outcomeAgrees() string {
	if e.out.Panicked {
		return "panic: " + e.out.PanicVal
	}
	switch {
	case e.mod.Fail == nil && e.out.Err != nil:
		return fmt.Sprintf("model: success; real: error %s (%v)", e.out.Class, e.out.Err)
	case e.mod.Fail != nil && e.out.Err == nil:
		return fmt.Sprintf("model: %s; real: success with %d postings %v", e.mod.Fail, len(e.out.Postings), e.out.Postings)
	case e.mod.Fail != nil && e.mod.Fail.Kind != e.out.Class:
		return fmt.Sprintf("model: %s; real: error %s (%v)", e.mod.Fail, e.out.Class, e.out.Err)
	}
	return ""
}

func shapeKey(sc *gen.Script) string { return gen.ShapeKey(sc) }

// tune places the fixed amounts of the sends on the supply frontier of their sources.
func tune(r *rng.R, cs *gen.Case) {
	in := real.ToInput(cs)
	for i, set := range cs.Tune {
		if set == nil {
			continue
		}
		if r.Chance(1, 4) {
			continue // keep the generator's own number
		}
		s, unb, ok := model.MaxSupply(cs.Script, in, i)
		if !ok || unb {
			continue
		}
		var n *big.Int
		switch r.Intn(8) {
		case 0:
			n = new(big.Int).Sub(s, big.NewInt(1))
		case 1, 2, 3:
			n = new(big.Int).Set(s)
		case 4:
			n = new(big.Int).Add(s, big.NewInt(1))
		case 5:
			n = new(big.Int).Rsh(s, 1)
		case 6:
			n = big.NewInt(0)
		default:
			n = new(big.Int).Add(s, gen.SmallOrBig(r, 10))
		}
		if n.Sign() < 0 {
			n = big.NewInt(0)
		}
		set(n)
	}
}

// genCase builds a tuned case for stratum configuration cfg.
func genCase(r *rng.R, cfg gen.LCfg) *gen.Case {
	cs := gen.GenLedger(r, cfg)
	tune(r, cs)
	if r.Chance(1, 6) {
		padNumbers(r, cs)
	}
	return cs
}

// padNumbers rewrites some numbers of the case — literals of the script, number and monetary
// variable texts — with leading zeros (007, -0100, "USD 0100"): the value is the same.
func padNumbers(r *rng.R, cs *gen.Case) {
	pad := func(t string) string {
		z := strings.Repeat("0", 1+r.Intn(3))
		if strings.HasPrefix(t, "-") {
			return "-" + z + t[1:]
		}
		return z + t
	}
	var walk func(e gen.Expr)
	walk = func(e gen.Expr) {
		switch e := e.(type) {
		case *gen.Num:
			if r.Chance(1, 3) {
				e.Text = pad(e.Text)
			}
		case *gen.Mon:
			walk(e.Amount)
		case *gen.Infix:
			walk(e.L)
			walk(e.R)
		}
	}
	gen.WalkExprs(cs.Script, walk)
	types := map[string]string{}
	for _, d := range cs.Script.Vars {
		types[d.Name] = d.Type
	}
	names := make([]string, 0, len(cs.Vars))
	for n := range cs.Vars {
		names = append(names, n)
	}
	sort.Strings(names)
	for _, n := range names {
		if !r.Chance(1, 3) {
			continue
		}
		t := cs.Vars[n]
		switch types[n] {
		case "number":
			cs.Vars[n] = pad(t)
		case "monetary":
			if i := strings.LastIndexByte(t, ' '); i >= 0 {
				cs.Vars[n] = t[:i+1] + pad(t[i+1:])
			}
		}
	}
	cs.Tags["padded-numbers"] = true
}

// genCaseM is genCase, and now and then one plain variable is turned into a meta()-origin
// variable reading the same text from the store's metadata.
func genCaseM(r *rng.R, cfg gen.LCfg) *gen.Case {
	cs := genCase(r, cfg)
	if r.Chance(1, 6) {
		addMetaOrigin(cs, r.Intn(9))
	}
	return cs
}

func bigS(s string) *big.Int {
	z, ok := new(big.Int).SetString(s, 10)
	if !ok {
		panic("bad big: " + s)
	}
	return z
}

// mkCase builds a hand-written case: balances given as "acct/ASSET" -> decimal text.
func mkCase(sc *gen.Script, vars map[string]string, bal map[string]string) *gen.Case {
	c := &gen.Case{Script: sc, Vars: map[string]string{}, Balances: map[string]map[string]*big.Int{},
		Meta: map[string]map[string]string{}, Flags: map[string]bool{}, Tags: map[string]bool{}}
	for k, v := range vars {
		c.Vars[k] = v
	}
	for k, v := range bal {
		i := strings.IndexByte(k, '/')
		a, as := k[:i], k[i+1:]
		if c.Balances[a] == nil {
			c.Balances[a] = map[string]*big.Int{}
		}
		c.Balances[a][as] = bigS(v)
	}
	c.Tune = make([]func(*big.Int), len(sc.Stmts))
	return c
}

type bigInt = big.Int
