package main

import (
	"fmt"
	"math/big"
	"sort"
	"strings"

	"github.com/formancehq/numscript/verifharness/fw"
	"github.com/formancehq/numscript/verifharness/gen"
	"github.com/formancehq/numscript/verifharness/model"
	"github.com/formancehq/numscript/verifharness/real"
	"github.com/formancehq/numscript/verifharness/rng"
)

// exec is one case executed by the real interpreter and by the model.
type exec struct {
	c      *gen.Case
	text   string
	parse  real.ParseOutcome
	out    *real.Outcome
	store  *real.Store
	mod    *model.Result
	grants *model.Grants
	// perStmt[i] = real postings attributed to statement i (nil when attribution was not done
	// or failed).
	perStmt [][]real.Posting
}

func (e *exec) input() any {
	d := e.c.Describe()
	d["script"] = e.text
	return d
}

// run parses and executes a case (exact store) and evaluates the model. ok=false: the case
// could not be executed at all (parse rejected the generated script or panicked) — counted,
// not a verdict for ledger properties.
func run(c *fw.Ctx, cs *gen.Case) (*exec, bool) {
	e := &exec{c: cs}
	// the layout (blanks, line breaks, comments between tokens) varies with the case; execution
	// must not care
	canon := gen.PrintCanonical(cs.Script).Text
	lr := rng.New(c.Seed, "layout|"+canon)
	e.text = canon
	if lr.Chance(1, 2) {
		e.text = gen.Print(cs.Script, gen.Layout{Kind: lr.Intn(gen.NumLayouts), R: lr}).Text
	}
	e.parse = real.Parse(e.text)
	if e.parse.Panicked {
		c.Count("generated_script_parse_panicked", 1)
		return e, false
	}
	if len(e.parse.Errors) > 0 {
		c.Count("generated_script_parse_rejected", 1)
		return e, false
	}
	e.out, e.store = real.RunCase(e.parse.Result, cs, real.Exact)
	e.mod = model.Run(cs.Script, real.ToInput(cs))
	c.Eval()
	return e, true
}

// attribute fills perStmt by executing every proper prefix of the script.
func (e *exec) attribute(c *fw.Ctx) bool {
	if e.perStmt != nil {
		return true
	}
	if !e.out.OK() {
		return false
	}
	n := len(e.c.Script.Stmts)
	per := make([][]real.Posting, n)
	prev := 0
	for k := 1; k <= n; k++ {
		var ps []real.Posting
		if k == n {
			ps = e.out.Postings
		} else {
			pc := *e.c
			pc.Script = model.Prefix(e.c.Script, k)
			txt := gen.PrintCanonical(pc.Script).Text
			po := real.Parse(txt)
			if po.Panicked || len(po.Errors) > 0 {
				c.Count("attribution_failed", 1)
				return false
			}
			o, _ := real.RunCase(po.Result, &pc, real.Exact)
			c.Eval()
			if !o.OK() {
				c.Count("attribution_failed", 1)
				return false
			}
			ps = o.Postings
		}
		if len(ps) < prev {
			c.Count("attribution_failed", 1)
			return false
		}
		// must extend the previous prefix
		full := e.out.Postings
		if len(ps) > len(full) {
			c.Count("attribution_failed", 1)
			return false
		}
		for i := range ps {
			if ps[i].String() != full[i].String() {
				c.Count("attribution_failed", 1)
				return false
			}
		}
		per[k-1] = ps[prev:]
		prev = len(ps)
	}
	e.perStmt = per
	return true
}

func flowsOf(ps []real.Posting) map[model.Pair]*big.Int {
	f := map[model.Pair]*big.Int{}
	for _, p := range ps {
		k := model.Pair{Src: p.Src, Dst: p.Dst}
		if f[k] == nil {
			f[k] = new(big.Int)
		}
		f[k].Add(f[k], p.Amt)
	}
	return f
}

func rowSums(f map[model.Pair]*big.Int) map[string]*big.Int {
	r := map[string]*big.Int{}
	for k, v := range f {
		if r[k.Src] == nil {
			r[k.Src] = new(big.Int)
		}
		r[k.Src].Add(r[k.Src], v)
	}
	return r
}

func colSums(f map[model.Pair]*big.Int) map[string]*big.Int {
	r := map[string]*big.Int{}
	for k, v := range f {
		if r[k.Dst] == nil {
			r[k.Dst] = new(big.Int)
		}
		r[k.Dst].Add(r[k.Dst], v)
	}
	return r
}

func total(f map[model.Pair]*big.Int) *big.Int {
	t := new(big.Int)
	for _, v := range f {
		t.Add(t, v)
	}
	return t
}

func showSums(m map[string]*big.Int) string {
	ks := make([]string, 0, len(m))
	for k, v := range m {
		if v.Sign() != 0 {
			ks = append(ks, k)
		}
	}
	sort.Strings(ks)
	var b strings.Builder
	for _, k := range ks {
		fmt.Fprintf(&b, "%s:%s ", k, m[k])
	}
	return strings.TrimSpace(b.String())
}

func showFlows(f map[model.Pair]*big.Int) string {
	var b strings.Builder
	for _, k := range model.SortedPairs(f) {
		if f[k].Sign() != 0 {
			fmt.Fprintf(&b, "%s->%s:%s ", k.Src, k.Dst, f[k])
		}
	}
	return strings.TrimSpace(b.String())
}

func equalSums(a, b map[string]*big.Int) bool { return showSums(a) == showSums(b) }

func equalFlows(a, b map[model.Pair]*big.Int) bool { return showFlows(a) == showFlows(b) }

// outcomeAgrees compares the class of the real outcome with the model's verdict. It returns a
// description of the disagreement, or "".
func (e *exec) outcomeAgrees() string {
	if e.out.Panicked {
		return "panic: " + e.out.PanicVal
	}
	switch {
	case e.mod.Fail == nil && e.out.Err != nil:
		return fmt.Sprintf("model: success; real: error %s (%v)", e.out.Class, e.out.Err)
	case e.mod.Fail != nil && e.out.Err == nil:
		return fmt.Sprintf("model: %s; real: success with %d postings %v", e.mod.Fail, len(e.out.Postings), e.out.Postings)
	case e.mod.Fail != nil && e.mod.Fail.Kind != e.out.Class:
		return fmt.Sprintf("model: %s; real: error %s (%v)", e.mod.Fail, e.out.Class, e.out.Err)
	}
	return ""
}

func shapeKey(sc *gen.Script) string { return gen.ShapeKey(sc) }

// tune places the fixed amounts of the sends on the supply frontier of their sources.
func tune(r *rng.R, cs *gen.Case) {
	in := real.ToInput(cs)
	for i, set := range cs.Tune {
		if set == nil {
			continue
		}
		if r.Chance(1, 4) {
			continue // keep the generator's own number
		}
		s, unb, ok := model.MaxSupply(cs.Script, in, i)
		if !ok || unb {
			continue
		}
		var n *big.Int
		switch r.Intn(8) {
		case 0:
			n = new(big.Int).Sub(s, big.NewInt(1))
		case 1, 2, 3:
			n = new(big.Int).Set(s)
		case 4:
			n = new(big.Int).Add(s, big.NewInt(1))
		case 5:
			n = new(big.Int).Rsh(s, 1)
		case 6:
			n = big.NewInt(0)
		default:
			n = new(big.Int).Add(s, gen.SmallOrBig(r, 10))
		}
		if n.Sign() < 0 {
			n = big.NewInt(0)
		}
		set(n)
	}
}

// genCase builds a tuned case for stratum configuration cfg.
func genCase(r *rng.R, cfg gen.LCfg) *gen.Case {
	cs := gen.GenLedger(r, cfg)
	tune(r, cs)
	return cs
}

// genCaseM is genCase, and now and then one plain variable is turned into a meta()-origin
// variable reading the same text from the store's metadata.
func genCaseM(r *rng.R, cfg gen.LCfg) *gen.Case {
	cs := genCase(r, cfg)
	if r.Chance(1, 6) {
		addMetaOrigin(cs, r.Intn(9))
	}
	return cs
}

func bigS(s string) *big.Int {
	z, ok := new(big.Int).SetString(s, 10)
	if !ok {
		panic("bad big: " + s)
	}
	return z
}

// mkCase builds a hand-written case: balances given as "acct/ASSET" -> decimal text.
func mkCase(sc *gen.Script, vars map[string]string, bal map[string]string) *gen.Case {
	c := &gen.Case{Script: sc, Vars: map[string]string{}, Balances: map[string]map[string]*big.Int{},
		Meta: map[string]map[string]string{}, Flags: map[string]bool{}, Tags: map[string]bool{}}
	for k, v := range vars {
		c.Vars[k] = v
	}
	for k, v := range bal {
		i := strings.IndexByte(k, '/')
		a, as := k[:i], k[i+1:]
		if c.Balances[a] == nil {
			c.Balances[a] = map[string]*big.Int{}
		}
		c.Balances[a][as] = bigS(v)
	}
	c.Tune = make([]func(*big.Int), len(sc.Stmts))
	return c
}

type bigInt = big.Int
