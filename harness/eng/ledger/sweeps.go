package main

import (
	"fmt"
	"math/big"
	"strings"

	"github.com/formancehq/numscript/internal/interpreter"
	"github.com/formancehq/numscript/verifharness/fw"
	"github.com/formancehq/numscript/verifharness/gen"
	"github.com/formancehq/numscript/verifharness/model"
	"github.com/formancehq/numscript/verifharness/real"
)

// runParsed executes a pre-parsed script on a case (exact store) and evaluates the model; the
// single send statement's postings are attributed directly.
func runParsed(c *fw.Ctx, po *real.ParseOutcome, text string, cs *gen.Case) *exec {
	e := &exec{c: cs, text: text, parse: *po}
	e.out, e.store = real.RunCase(po.Result, cs, real.Exact)
	e.mod = model.Run(cs.Script, real.ToInput(cs))
	c.Eval()
	if e.out.OK() && len(cs.Script.Stmts) == 1 {
		e.perStmt = [][]real.Posting{e.out.Postings}
	}
	return e
}

type leafSpec struct {
	acct string
	kind int // 0 plain, 1 overdraft 0, 2 overdraft 1, 3 overdraft 2, 4 unbounded
}

func mkLeaf(l leafSpec) gen.Source {
	switch l.kind {
	case 0:
		return gen.SA(l.acct)
	case 4:
		return &gen.SrcOverdraft{Addr: gen.A(l.acct)}
	default:
		return &gen.SrcOverdraft{Addr: gen.A(l.acct), Bounded: gen.M("USD", itoa(l.kind-1))}
	}
}

type srcForm struct {
	name   string
	leaves int
	caps   int
	build  func(l []gen.Source, c []gen.Expr) gen.Source
}

func half() gen.Allot  { return &gen.AllotLit{Lit: &gen.Ratio{Text: "1/2"}} }
func third() gen.Allot { return &gen.AllotLit{Lit: &gen.Ratio{Text: "1/3"}} }

var srcForms = []srcForm{
	{"L", 1, 0, func(l []gen.Source, c []gen.Expr) gen.Source { return l[0] }},
	{"{LL}", 2, 0, func(l []gen.Source, c []gen.Expr) gen.Source { return &gen.SrcInorder{Srcs: []gen.Source{l[0], l[1]}} }},
	{"mL", 1, 1, func(l []gen.Source, c []gen.Expr) gen.Source { return &gen.SrcCapped{Cap: c[0], From: l[0]} }},
	{"m{LL}", 2, 1, func(l []gen.Source, c []gen.Expr) gen.Source {
		return &gen.SrcCapped{Cap: c[0], From: &gen.SrcInorder{Srcs: []gen.Source{l[0], l[1]}}}
	}},
	{"{mL L}", 2, 1, func(l []gen.Source, c []gen.Expr) gen.Source {
		return &gen.SrcInorder{Srcs: []gen.Source{&gen.SrcCapped{Cap: c[0], From: l[0]}, l[1]}}
	}},
	{"{L mL}", 2, 1, func(l []gen.Source, c []gen.Expr) gen.Source {
		return &gen.SrcInorder{Srcs: []gen.Source{l[0], &gen.SrcCapped{Cap: c[0], From: l[1]}}}
	}},
	{"<LL>", 2, 0, func(l []gen.Source, c []gen.Expr) gen.Source {
		return &gen.SrcAllot{Items: []*gen.SrcAllotItem{{A: half(), From: l[0]}, {A: &gen.AllotRemaining{}, From: l[1]}}}
	}},
	{"m<LL>", 2, 1, func(l []gen.Source, c []gen.Expr) gen.Source {
		return &gen.SrcCapped{Cap: c[0], From: &gen.SrcAllot{Items: []*gen.SrcAllotItem{{A: third(), From: l[0]}, {A: &gen.AllotRemaining{}, From: l[1]}}}}
	}},
	{"{LLL}", 3, 0, func(l []gen.Source, c []gen.Expr) gen.Source {
		return &gen.SrcInorder{Srcs: []gen.Source{l[0], l[1], l[2]}}
	}},
	{"{L{LL}}", 3, 0, func(l []gen.Source, c []gen.Expr) gen.Source {
		return &gen.SrcInorder{Srcs: []gen.Source{l[0], &gen.SrcInorder{Srcs: []gen.Source{l[1], l[2]}}}}
	}},
	{"m{mL L}", 2, 2, func(l []gen.Source, c []gen.Expr) gen.Source {
		return &gen.SrcCapped{Cap: c[0], From: &gen.SrcInorder{Srcs: []gen.Source{&gen.SrcCapped{Cap: c[1], From: l[0]}, l[1]}}}
	}},
	{"{L m{LL}}", 3, 1, func(l []gen.Source, c []gen.Expr) gen.Source {
		return &gen.SrcInorder{Srcs: []gen.Source{l[0], &gen.SrcCapped{Cap: c[0], From: &gen.SrcInorder{Srcs: []gen.Source{l[1], l[2]}}}}}
	}},
}

// sweepC04: small-scope exhaustive enumeration of source trees × balances × need × mode.
func sweepC04(c *fw.Ctx) {
	accts := []string{"a", "b"}
	balLo, balHi := -1, 2
	capLo, capHi := -1, 2
	needHi := 4
	if !c.Quick {
		balLo, balHi, capLo, capHi, needHi = -2, 3, -1, 3, 6
	}
	base := 10_000_000
	idx := 0
	for _, f := range srcForms {
		nl := pow(len(accts)*5, f.leaves)
		nc := pow(capHi-capLo+1, f.caps)
		for li := 0; li < nl; li++ {
			for ci := 0; ci < nc; ci++ {
				idx++
				id := fmt.Sprintf("sweep04/%s/%d/%d", f.name, li, ci)
				// quick: three-leaf forms are sampled (1 in 5), everything else is complete
				if c.Quick && f.leaves == 3 && (li+ci)%5 != 0 {
					continue
				}
				if !c.Want(base+idx, id) {
					continue
				}
				leaves := make([]gen.Source, f.leaves)
				x := li
				desc := ""
				for k := 0; k < f.leaves; k++ {
					sp := leafSpec{acct: accts[x%len(accts)], kind: (x / len(accts)) % 5}
					x /= len(accts) * 5
					leaves[k] = mkLeaf(sp)
					desc += fmt.Sprintf("%s%d", sp.acct, sp.kind)
				}
				caps := make([]gen.Expr, f.caps)
				y := ci
				for k := 0; k < f.caps; k++ {
					caps[k] = gen.M("USD", fmt.Sprint(capLo+y%(capHi-capLo+1)))
					y /= capHi - capLo + 1
				}
				src := f.build(leaves, caps)
				fixed := &gen.Script{Vars: []*gen.VarDecl{{Type: "monetary", Name: "n"}},
					Stmts: []gen.Stmt{&gen.Send{Sent: &gen.SentValue{E: gen.V("n")}, Src: src, Dst: gen.DA("z")}}}
				all := &gen.Script{Stmts: []gen.Stmt{&gen.Send{Sent: &gen.SentValue{All: true, E: gen.As("USD")}, Src: src, Dst: gen.DA("z")}}}
				ftxt, atxt := gen.PrintCanonical(fixed).Text, gen.PrintCanonical(all).Text
				fp, ap := real.Parse(ftxt), real.Parse(atxt)
				if fp.Panicked || ap.Panicked || len(fp.Errors)+len(ap.Errors) > 0 {
					c.Count("generated_script_parse_rejected", 1)
					continue
				}
				for ba := balLo; ba <= balHi; ba++ {
					for bb := balLo; bb <= balHi; bb++ {
						bal := map[string]string{"a/USD": fmt.Sprint(ba), "b/USD": fmt.Sprint(bb)}
						for need := 0; need <= needHi+1; need++ {
							var e *exec
							if need <= needHi {
								cs := mkCase(fixed, map[string]string{"n": fmt.Sprintf("USD %d", need)}, bal)
								e = runParsed(c, &fp, ftxt, cs)
							} else {
								cs := mkCase(all, nil, bal)
								e = runParsed(c, &ap, atxt, cs)
							}
							c.Count("sweep_cases", 1)
							if !compareModel(c, e, projRows) {
								return
							}
							if e.mod.Fail == nil && len(e.mod.Stmts) == 1 {
								c.Distinct("sweep|" + f.name + "|" + desc + "|" + strings.Join(e.mod.Stmts[0].Binding, ","))
							}
						}
					}
				}
			}
		}
	}
	if c.Want(base, "sweep04/done") {
		c.Count("exhaustive_spaces_completed", 1)
	}
}

func pow(b, e int) int {
	r := 1
	for i := 0; i < e; i++ {
		r *= b
	}
	return r
}

// sweepC05: exhaustive ordered destinations fed by @world.
func sweepC05(c *fw.Ctx) {
	capLo, capHi, amtHi := -1, 4, 8
	targets := []func() *gen.KOD{
		func() *gen.KOD { return gen.To(gen.DA("x")) },
		func() *gen.KOD { return gen.To(gen.DA("y")) },
		func() *gen.KOD { return gen.Kept() },
		// nested ordered destination
		func() *gen.KOD {
			return gen.To(&gen.DstInorder{Clauses: []*gen.DstClause{{Cap: gen.M("USD", "1"), To: gen.To(gen.DA("y"))}}, Remaining: gen.To(gen.DA("x"))})
		},
		// nested allotment
		func() *gen.KOD {
			return gen.To(&gen.DstAllot{Items: []*gen.DstAllotItem{{A: third(), To: gen.To(gen.DA("x"))}, {A: &gen.AllotRemaining{}, To: gen.Kept()}}})
		},
	}
	nT := len(targets)
	nC := capHi - capLo + 1
	base := 20_000_000
	idx := 0
	for ncl := 0; ncl <= 3; ncl++ {
		total := pow(nT*nC, ncl) * nT
		for k := 0; k < total; k++ {
			idx++
			if c.Quick && ncl == 3 && k%16 != 0 {
				continue
			}
			id := fmt.Sprintf("sweep05/%d/%d", ncl, k)
			if !c.Want(base+idx, id) {
				continue
			}
			x := k
			d := &gen.DstInorder{}
			desc := ""
			for j := 0; j < ncl; j++ {
				t := x % nT
				x /= nT
				cp := capLo + x%nC
				x /= nC
				d.Clauses = append(d.Clauses, &gen.DstClause{Cap: gen.M("USD", fmt.Sprint(cp)), To: targets[t]()})
				desc += fmt.Sprintf("%d:%d,", t, cp)
			}
			d.Remaining = targets[x%nT]()
			desc += fmt.Sprintf("r%d", x%nT)
			sc := &gen.Script{Vars: []*gen.VarDecl{{Type: "monetary", Name: "n"}},
				Stmts: []gen.Stmt{&gen.Send{Sent: &gen.SentValue{E: gen.V("n")}, Src: gen.SA("world"), Dst: d}}}
			txt := gen.PrintCanonical(sc).Text
			po := real.Parse(txt)
			if po.Panicked || len(po.Errors) > 0 {
				c.Count("generated_script_parse_rejected", 1)
				continue
			}
			for amt := 0; amt <= amtHi; amt++ {
				cs := mkCase(sc, map[string]string{"n": fmt.Sprintf("USD %d", amt)}, nil)
				e := runParsed(c, &po, txt, cs)
				c.Count("sweep_cases", 1)
				if !compareModel(c, e, projCols) {
					return
				}
				if e.mod.Fail == nil && len(e.mod.Stmts) == 1 {
					c.Distinct("sweep|" + desc + "|" + strings.Join(e.mod.Stmts[0].DstBinding, ","))
				}
			}
		}
	}
	if c.Want(base, "sweep05/done") {
		c.Count("exhaustive_spaces_completed", 1)
	}
}

// splitPattern describes how the boundaries of a draw list and of a distribution list
// interleave (D = a draw ends first, R = a share ends first, = both end together; k marks kept).
func splitPattern(draws, dists []model.Leg) string {
	var b strings.Builder
	fmt.Fprintf(&b, "%dx%d:", len(draws), len(dists))
	i, j := 0, 0
	var di, rj *big.Int
	for i < len(draws) && j < len(dists) {
		if di == nil {
			di = new(big.Int).Set(draws[i].Amt)
		}
		if rj == nil {
			rj = new(big.Int).Set(dists[j].Amt)
			if dists[j].Name == model.Kept {
				b.WriteByte('k')
			}
		}
		switch di.Cmp(rj) {
		case 0:
			b.WriteByte('=')
			i++
			j++
			di, rj = nil, nil
		case -1:
			b.WriteByte('D')
			rj.Sub(rj, di)
			i++
			di = nil
		case 1:
			b.WriteByte('R')
			di.Sub(di, rj)
			j++
			rj = nil
		}
	}
	return b.String()
}

// reconcileDirect calls interpreter.Reconcile on enumerated sender / receiver lists.
func reconcileDirect(c *fw.Ctx) {
	sNames := []string{"a", "b"}
	rNames := []string{"x", "y", interpreter.KEPT_ADDR}
	maxLen, maxAmt := 3, 3
	if !c.Quick {
		maxLen = 4
	}
	type leg struct {
		name string
		amt  int
	}
	var enum func(names []string, n int) [][]leg
	enum = func(names []string, n int) [][]leg {
		if n == 0 {
			return [][]leg{nil}
		}
		var out [][]leg
		for _, rest := range enum(names, n-1) {
			for _, nm := range names {
				for a := 1; a <= maxAmt; a++ {
					l := append(append([]leg(nil), rest...), leg{nm, a})
					out = append(out, l)
				}
			}
		}
		return out
	}
	var senders, receivers [][]leg
	for n := 1; n <= maxLen; n++ {
		senders = append(senders, enum(sNames, n)...)
		receivers = append(receivers, enum(rNames, n)...)
	}
	sum := func(l []leg) int {
		t := 0
		for _, x := range l {
			t += x.amt
		}
		return t
	}
	base := 30_000_000
	for si, ss := range senders {
		id := "reconcile/" + itoa(si)
		if !c.Want(base+si, id) {
			continue
		}
		for _, rs := range receivers {
			if sum(rs) > sum(ss) {
				continue
			}
			if c.Quick && sum(rs) != sum(ss) && (len(rs)+si)%3 != 0 {
				continue
			}
			var snd []interpreter.Sender
			var rcv []interpreter.Receiver
			var draws, dists []model.Leg
			for _, s := range ss {
				snd = append(snd, interpreter.Sender{Name: s.name, Monetary: big.NewInt(int64(s.amt))})
				draws = append(draws, model.Leg{Name: s.name, Amt: big.NewInt(int64(s.amt))})
			}
			for _, r := range rs {
				rcv = append(rcv, interpreter.Receiver{Name: r.name, Monetary: big.NewInt(int64(r.amt))})
				n := r.name
				if n == interpreter.KEPT_ADDR {
					n = model.Kept
				}
				dists = append(dists, model.Leg{Name: n, Amt: big.NewInt(int64(r.amt))})
			}
			input := func() any { return map[string]any{"senders": ss2(draws), "receivers": ss2(dists)} }
			var ps []interpreter.Posting
			var err error
			if !c.Guard("Reconcile", input, func() { ps, err = interpreter.Reconcile("USD", snd, rcv) }) {
				return
			}
			c.Eval()
			c.Count("reconcile_direct_calls", 1)
			if err != nil {
				c.Violation("reconcile-error", fmt.Sprintf("Reconcile failed: %v", err), input())
				return
			}
			var got []real.Posting
			for _, p := range ps {
				if p.Amount == nil || p.Amount.Sign() <= 0 {
					c.Violation("reconcile-nonpositive", fmt.Sprintf("Reconcile produced posting %s->%s %v", p.Source, p.Destination, p.Amount), input())
					return
				}
				if p.Source == interpreter.KEPT_ADDR || p.Destination == interpreter.KEPT_ADDR {
					c.Violation("reconcile-kept-leak", "Reconcile produced a posting naming the kept marker", input())
					return
				}
				got = append(got, real.Posting{Src: p.Source, Dst: p.Destination, Asset: p.Asset, Amt: p.Amount})
			}
			want := model.PairFIFO(draws, dists)
			if !equalFlows(flowsOf(got), want) {
				c.Violation("reconcile-flows", fmt.Sprintf("Reconcile flows {%s}, expected FIFO pairing {%s}", showFlows(flowsOf(got)), showFlows(want)), input())
				return
			}
			c.Distinct("direct|" + splitPattern(draws, dists))
		}
	}
	if c.Want(base-1, "reconcile/done") {
		c.Count("exhaustive_spaces_completed", 1)
	}
	// random longer lists with big amounts
	n := c.N(20000, 400000)
	for i := 0; i < n; i++ {
		id := "reconcile-rand/" + itoa(i)
		if !c.Want(base+1_000_000+i, id) {
			continue
		}
		r := c.Rng(id)
		var snd []interpreter.Sender
		var rcv []interpreter.Receiver
		var draws, dists []model.Leg
		tot := new(big.Int)
		for k := r.Range(1, 7); k > 0; k-- {
			a := new(big.Int).Add(gen.SmallOrBig(r, 10), big.NewInt(1))
			nm := r.Pick("a", "b", "c")
			snd = append(snd, interpreter.Sender{Name: nm, Monetary: new(big.Int).Set(a)})
			draws = append(draws, model.Leg{Name: nm, Amt: a})
			tot.Add(tot, a)
		}
		left := new(big.Int).Set(tot)
		for k := r.Range(1, 7); k > 0 && left.Sign() > 0; k-- {
			var a *big.Int
			if k == 1 {
				a = new(big.Int).Set(left)
			} else {
				a = new(big.Int).Add(gen.SmallOrBig(r, 5), big.NewInt(1))
				if a.Cmp(left) > 0 {
					a.Set(left)
				}
			}
			left.Sub(left, a)
			nm := r.Pick("x", "y", "z", interpreter.KEPT_ADDR)
			rcv = append(rcv, interpreter.Receiver{Name: nm, Monetary: new(big.Int).Set(a)})
			mn := nm
			if nm == interpreter.KEPT_ADDR {
				mn = model.Kept
			}
			dists = append(dists, model.Leg{Name: mn, Amt: a})
		}
		input := func() any { return map[string]any{"senders": ss2(draws), "receivers": ss2(dists)} }
		var ps []interpreter.Posting
		if !c.Guard("Reconcile", input, func() { ps, _ = interpreter.Reconcile("USD", snd, rcv) }) {
			return
		}
		c.Eval()
		c.Count("reconcile_direct_calls", 1)
		var got []real.Posting
		for _, p := range ps {
			if p.Amount == nil || p.Amount.Sign() <= 0 {
				c.Violation("reconcile-nonpositive", fmt.Sprintf("Reconcile produced posting %s->%s %v", p.Source, p.Destination, p.Amount), input())
				return
			}
			got = append(got, real.Posting{Src: p.Source, Dst: p.Destination, Asset: p.Asset, Amt: p.Amount})
		}
		want := model.PairFIFO(draws, dists)
		if !equalFlows(flowsOf(got), want) {
			c.Violation("reconcile-flows", fmt.Sprintf("Reconcile flows {%s}, expected FIFO pairing {%s}", showFlows(flowsOf(got)), showFlows(want)), input())
			return
		}
		c.Distinct("direct|" + splitPattern(draws, dists))
	}
}

func ss2(ls []model.Leg) []string {
	var out []string
	for _, l := range ls {
		n := l.Name
		if n == model.Kept {
			n = "<kept>"
		}
		out = append(out, n+":"+l.Amt.String())
	}
	return out
}

// ---- C08 ----

func runC08(c *fw.Ctx) {
	mon := func(e *exec, s string) {
		if !compareModel(c, e, projMatrix) {
			return
		}
		// non-trivial: a statement after a save draws from (or tries to draw from) the saved account
		saved := map[string]bool{}
		for i, st := range e.c.Script.Stmts {
			switch st := st.(type) {
			case *gen.Save:
				if a, ok := st.From.(*gen.Account); ok {
					saved[a.Name] = true
				} else if v, ok := st.From.(*gen.Var); ok {
					saved[e.c.Vars[v.Name]] = true
				}
			case *gen.Send:
				if len(saved) == 0 {
					continue
				}
				hit := false
				if e.mod.Env != nil {
					g := model.CollectGrants(&gen.Script{Stmts: []gen.Stmt{st}}, e.mod.Env)
					for a := range saved {
						if g.Accounts[a] {
							hit = true
						}
					}
				}
				if hit {
					c.Count("save_then_draw_cases", 1)
					rel := "ok"
					if e.mod.Fail != nil {
						rel = e.mod.Fail.Kind
					}
					c.Distinct(s + "|" + shapeKey(e.c.Script) + "|" + itoa(i) + rel)
				}
			}
		}
	}
	// (1) corpus
	idx := 0
	for i, cs := range corpus() {
		id := "corpus/" + itoa(i)
		if c.Want(idx, id) {
			if e, ok := run(c, cs); ok {
				mon(e, "corpus")
			}
		}
		idx++
	}
	// (2) systematic: sequences over a small statement alphabet × balances
	fixed := func(n string) *gen.SentValue { return &gen.SentValue{E: gen.M("USD", n)} }
	alphabet := []func() gen.Stmt{
		func() gen.Stmt { return &gen.Save{Sent: fixed("0"), From: gen.A("a")} },
		func() gen.Stmt { return &gen.Save{Sent: fixed("2"), From: gen.A("a")} },
		func() gen.Stmt { return &gen.Save{Sent: fixed("5"), From: gen.A("a")} },
		func() gen.Stmt { return &gen.Save{Sent: fixed("9"), From: gen.A("a")} },
		func() gen.Stmt { return &gen.Save{Sent: &gen.SentValue{All: true, E: gen.As("USD")}, From: gen.A("a")} },
		func() gen.Stmt { return &gen.Save{Sent: &gen.SentValue{E: gen.M("COIN", "5")}, From: gen.A("a")} },
		func() gen.Stmt { return &gen.Save{Sent: fixed("-1"), From: gen.A("a")} },
		func() gen.Stmt { return &gen.Save{Sent: fixed("-1"), From: gen.A("world")} },
		func() gen.Stmt { return &gen.Save{Sent: fixed("3"), From: gen.A("world")} },
		func() gen.Stmt { return &gen.Save{Sent: &gen.SentValue{E: gen.V("s")}, From: gen.A("a")} },
		func() gen.Stmt { return &gen.Save{Sent: &gen.SentValue{E: gen.V("s")}, From: gen.A("c")} },
		func() gen.Stmt {
			return &gen.Send{Sent: &gen.SentValue{E: gen.V("s")}, Src: &gen.SrcInorder{Srcs: []gen.Source{gen.SA("a"), gen.SA("world")}}, Dst: gen.DA("b")}
		},
		func() gen.Stmt { return &gen.Send{Sent: fixed("1"), Src: gen.SA("a"), Dst: gen.DA("b")} },
		func() gen.Stmt { return &gen.Send{Sent: fixed("3"), Src: gen.SA("a"), Dst: gen.DA("b")} },
		func() gen.Stmt { return &gen.Send{Sent: fixed("6"), Src: gen.SA("a"), Dst: gen.DA("b")} },
		func() gen.Stmt {
			return &gen.Send{Sent: fixed("3"), Src: &gen.SrcOverdraft{Addr: gen.A("a"), Bounded: gen.M("USD", "2")}, Dst: gen.DA("b")}
		},
		func() gen.Stmt {
			return &gen.Send{Sent: &gen.SentValue{All: true, E: gen.As("USD")}, Src: gen.SA("a"), Dst: gen.DA("b")}
		},
		func() gen.Stmt {
			return &gen.Send{Sent: &gen.SentValue{All: true, E: gen.As("USD")}, Src: &gen.SrcOverdraft{Addr: gen.A("a"), Bounded: gen.M("USD", "2")}, Dst: gen.DA("b")}
		},
		func() gen.Stmt { return &gen.Send{Sent: fixed("4"), Src: gen.SA("world"), Dst: gen.DA("a")} },
		func() gen.Stmt {
			return &gen.Send{Sent: fixed("4"), Src: &gen.SrcInorder{Srcs: []gen.Source{gen.SA("a"), gen.SA("c")}}, Dst: gen.DA("b")}
		},
	}
	na := len(alphabet)
	bals := []string{"-3", "0", "2", "5", "8"}
	maxLen := 3
	base := 1000
	n := 0
	for l := 2; l <= maxLen; l++ {
		for k := 0; k < pow(na, l); k++ {
			n++
			// need at least one save
			x := k
			hasSave := false
			for j := 0; j < l; j++ {
				if x%na <= 10 {
					hasSave = true
				}
				x /= na
			}
			if !hasSave {
				continue
			}
			if c.Quick && l == 3 && k%3 != 0 {
				continue
			}
			id := fmt.Sprintf("sys08/%d/%d", l, k)
			if !c.Want(base+n, id) {
				continue
			}
			sc := &gen.Script{Vars: []*gen.VarDecl{{Type: "monetary", Name: "s"}}}
			x = k
			for j := 0; j < l; j++ {
				sc.Stmts = append(sc.Stmts, alphabet[x%na]())
				x /= na
			}
			for _, b := range bals {
				cs := mkCase(sc, map[string]string{"s": "USD 7"}, map[string]string{"a/USD": b, "c/USD": "3", "a/COIN": "4"})
				if e, ok := run(c, cs); ok {
					c.Count("systematic_cases", 1)
					mon(e, "sys")
				}
			}
		}
	}
	if c.Want(base, "sys08/done") {
		c.Count("exhaustive_spaces_completed", 1)
	}
	// (3) random, save-heavy
	strata := []stratum{}
	for _, s := range ledgerStrata() {
		if s.name == "save" || s.name == "chains" {
			strata = append(strata, s)
		}
	}
	strata = append(strata,
		stratum{"save-names", with(func(c *gen.LCfg) {
			// saves from accounts whose names resemble @world
			c.Accounts = []string{"a", "world:treasury", "World", "WORLD", "worlds", "world:a", "a:world"}
			c.Assets = []string{"USD"}
			c.PSave, c.PWorld, c.PUnbounded, c.PNegBal, c.MinStmts, c.MaxStmts, c.Depth = 40, 3, 5, 10, 2, 4, 1
		}), 1},
		stratum{"save-longsrc", with(func(c *gen.LCfg) {
			// saves between statements that draw from dozens of funded accounts
			c.Accounts = manyAccountsL(80)
			c.Assets = []string{"USD"}
			c.PSave, c.PLongSrc, c.PFunded, c.Fanout, c.PRepeat, c.PSaveDrawn = 30, 70, 90, 70, 5, 60
			c.PWorld, c.PUnbounded, c.PBig, c.PNegBal, c.MinStmts, c.MaxStmts, c.Depth = 3, 3, 0, 0, 3, 5, 1
		}), 1},
	)
	forEachCase(strata, c.N(60000, 1500000), func(i int, id string, st *stratum, k int) {
		if !c.Want(100000+i, id) {
			return
		}
		cs := genCase(c.Rng(id), st.cfg)
		if e, ok := run(c, cs); ok {
			c.Count("stratum_"+st.name, 1)
			mon(e, st.name)
			if c.WantSample() && k%11 == 5 {
				c.Sample(map[string]any{"case": id, "input": e.input(), "real_outcome": e.out.Summary()})
			}
		}
	})
}

// drainDirect: send-all from an in-order list of DISTINCT accounts (plain or with a bounded
// overdraft, no caps) — checked without the reference semantics: after the statement every
// listed plain account holds min(start, 0) and every bounded-overdraft account
// start − max(0, start + bound), and nothing else was debited.
func drainDirect(c *fw.Ctx) {
	n := c.N(15000, 600000)
	names := []string{"a", "b", "c", "d", "e"}
	for i := 0; i < n; i++ {
		id := "drain/" + itoa(i)
		if !c.Want(40_000_000+i, id) {
			continue
		}
		r := c.Rng(id)
		k := r.Range(1, 5)
		perm := append([]string(nil), names...)
		r.Shuffle(len(perm), func(x, y int) { perm[x], perm[y] = perm[y], perm[x] })
		var srcs []gen.Source
		bal := map[string]string{}
		want := map[string]*big.Int{}
		for j := 0; j < k; j++ {
			a := perm[j]
			start := gen.Balance(r, 15, 30)
			if r.Chance(5, 6) {
				bal[a+"/USD"] = start.String()
			} else {
				start = new(big.Int)
			}
			od := new(big.Int)
			if r.Chance(1, 2) {
				od = gen.SmallOrBig(r, 10)
				if r.Chance(1, 8) {
					od.Neg(od)
				}
				srcs = append(srcs, &gen.SrcOverdraft{Addr: gen.A(a), Bounded: gen.M("USD", od.String())})
			} else {
				srcs = append(srcs, gen.SA(a))
			}
			give := new(big.Int).Add(start, od)
			if give.Sign() < 0 {
				give.SetInt64(0)
			}
			want[a] = new(big.Int).Sub(start, give)
		}
		var src gen.Source = &gen.SrcInorder{Srcs: srcs}
		if k == 1 && r.Bool() {
			src = srcs[0]
		}
		sc := &gen.Script{Stmts: []gen.Stmt{&gen.Send{Sent: &gen.SentValue{All: true, E: gen.As("USD")}, Src: src, Dst: gen.DA("z")}}}
		cs := mkCase(sc, nil, bal)
		e, ok := run(c, cs)
		if !ok {
			continue
		}
		c.Count("drain_direct_cases", 1)
		if !e.out.OK() {
			c.Violation("drain-failed", fmt.Sprintf("send-all from bounded sources failed: %s (%v)", e.out.Summary(), e.out.Err), e.input())
			return
		}
		final := map[string]*big.Int{}
		for a := range want {
			final[a] = new(big.Int)
			if b, ok := cs.Balances[a]["USD"]; ok {
				final[a].Set(b)
			}
		}
		for _, p := range e.out.Postings {
			if _, listed := final[p.Src]; !listed {
				c.Violation("drain-foreign-debit", fmt.Sprintf("posting %s debits an account that is not a listed source", p), e.input())
				return
			}
			final[p.Src].Sub(final[p.Src], p.Amt)
			if p.Dst != "z" {
				c.Violation("drain-wrong-credit", fmt.Sprintf("posting %s credits %s", p, p.Dst), e.input())
				return
			}
		}
		for a, w := range want {
			if final[a].Cmp(w) != 0 {
				c.Violation("drain-level", fmt.Sprintf("after send-all, @%s holds %s; expected exactly %s (start %v)", a, final[a], w, bal[a+"/USD"]), e.input())
				return
			}
		}
		c.Distinct(fmt.Sprintf("drain|%d|%s", k, gen.ShapeKey(sc)))
	}
}
