package main

import (
	"fmt"
	"math/big"
	"sort"

	"github.com/formancehq/numscript/verifharness/fw"
	"github.com/formancehq/numscript/verifharness/gen"
	"github.com/formancehq/numscript/verifharness/model"
	"github.com/formancehq/numscript/verifharness/real"
)

func propC09() *fw.Prop {
	return &fw.Prop{
		ID: "C09", Level: "exploration",
		Rule:        "metamorphic monitor over executions of the real interpreter only: for a generated script S1..Sn (2–6 statements biased to chains over 3 accounts, shared metadata keys, no balance-reading variables) and EVERY split point k, run(S1..Sn,B) must equal run(S1..Sk,B) followed by run(Sk+1..Sn,B') where B' = B updated with the first run's real postings and the save rule: postings concatenate, tx/account metadata merge last-writer-wins, failures agree in class. Distinct = (script shape, k) where the second half draws from an account whose balance the first half changed. Added later: a stratum of several statements in a row whose sources are flat lists of 12..40 funded accounts; half of the cases run (whole and halves alike) against a store that leaves out the balances it has no record of.",
		Assumptions: []string{trustedBase, "the save rule (visible balance lowered, floored at zero, negative untouched) is the only model ingredient; save operands are evaluated with the model's expression evaluator"},
		Require:     []string{"splits_checked", "splits_where_second_half_depends_on_first", "splits_full_run_failed", "splits_with_save_in_first_half", "splits_with_metadata_override"},
		Run:         runC09,
	}
}

func c09Strata() []stratum {
	noOrigin := func(c *gen.LCfg) { c.POriginVar = 0 }
	return []stratum{
		{"chains", with(func(c *gen.LCfg) {
			noOrigin(c)
			c.Accounts = []string{"a", "b", "c"}
			c.Assets = []string{"USD"}
			c.MinStmts, c.MaxStmts, c.Depth = 2, 6, 2
			c.PWorld, c.PUnbounded, c.PSave, c.PMetaStmt = 6, 5, 18, 15
			c.DestWorld = false
		}), 5},
		{"two-assets", with(func(c *gen.LCfg) {
			noOrigin(c)
			c.Accounts = []string{"a", "b", "c"}
			c.Assets = []string{"USD", "COIN"}
			c.MinStmts, c.MaxStmts, c.Depth = 2, 5, 2
			c.PSave, c.PMetaStmt = 20, 10
		}), 2},
		{"general", with(func(c *gen.LCfg) { noOrigin(c); c.MinStmts, c.MaxStmts = 2, 5 }), 2},
		{"wide", with(func(c *gen.LCfg) {
			// statements that draw from dozens of accounts, several of them in a row
			noOrigin(c)
			c.Accounts = manyAccounts(60)
			c.Assets = []string{"USD"}
			c.MinStmts, c.MaxStmts, c.Depth, c.Fanout = 2, 4, 1, 30
			c.PLongSrc, c.PRepeat, c.PWorld, c.PUnbounded, c.PBig, c.PAbsent, c.PNegBal = 85, 10, 3, 3, 0, 5, 0
			c.PFunded, c.PSendAll, c.PSave, c.PMetaStmt, c.Fanout = 85, 6, 6, 3, 40
		}), 2},
		{"ladder", with(func(c *gen.LCfg) {
			// two or three statements whose sources have 15 .. 1025 entries (sizes next to powers of two)
			noOrigin(c)
			c.Accounts = manyAccounts(1100)
			c.Assets = []string{"USD"}
			c.Ladder = true
			c.MinStmts, c.MaxStmts, c.Depth, c.Fanout = 2, 3, 1, 1030
			c.PLongSrc, c.PLongDst, c.PRepeat, c.PWorld, c.PUnbounded, c.PBig, c.PAbsent, c.PNegBal = 90, 10, 2, 2, 2, 0, 2, 0
			c.PFunded, c.PSendAll, c.PSave, c.PMetaStmt, c.PVarAcct = 97, 10, 4, 0, 1
		}), 1},
		{"meta", with(func(c *gen.LCfg) {
			noOrigin(c)
			c.Accounts = []string{"a", "b"}
			c.MinStmts, c.MaxStmts, c.PMetaStmt, c.Depth = 2, 6, 60, 1
		}), 1},
	}
}

func postingsEqual(a, b []real.Posting) bool {
	if len(a) != len(b) {
		return false
	}
	for i := range a {
		if a[i].String() != b[i].String() {
			return false
		}
	}
	return true
}

// c09Store is the kind of store the current C09 case runs against (whole script and halves
// alike): one that answers every asked pair, or one that leaves out what it has no record of.
var c09Store = real.Exact

func runCaseText(c *fw.Ctx, cs *gen.Case) (*real.Outcome, bool) {
	txt := gen.PrintCanonical(cs.Script).Text
	po := real.Parse(txt)
	if po.Panicked || len(po.Errors) > 0 {
		c.Count("generated_script_parse_rejected", 1)
		return nil, false
	}
	o, _ := real.RunCase(po.Result, cs, c09Store)
	c.Eval()
	return o, true
}

func runC09(c *fw.Ctx) {
	idx := 0
	check := func(id string, cs *gen.Case, stratum string) {
		n := len(cs.Script.Stmts)
		if n < 2 {
			return
		}
		full, ok := runCaseText(c, cs)
		if !ok {
			return
		}
		if full.Panicked {
			c.Violation("panic:"+full.Frame, "panic: "+full.PanicVal, cs.Describe())
			return
		}
		mod := model.Run(cs.Script, real.ToInput(cs)) // only for its variable environment
		if mod.Env == nil {
			return
		}
		// prefix runs (real)
		pref := make([]*real.Outcome, n+1)
		pref[n] = full
		for k := 1; k < n; k++ {
			pc := *cs
			pc.Script = model.Prefix(cs.Script, k)
			o, ok := runCaseText(c, &pc)
			if !ok {
				return
			}
			pref[k] = o
		}
		// how many statements moved funds through 16 or more postings (long sender lists)
		long := 0
		for k, prev := 1, 0; k <= n; k++ {
			if pref[k] == nil || !pref[k].OK() {
				break
			}
			if len(pref[k].Postings)-prev >= 16 {
				long++
			}
			prev = len(pref[k].Postings)
		}
		if long >= 2 {
			c.Count("scripts_with_two_statements_of_16_or_more_postings", 1)
		}
		for k := 1; k < n; k++ {
			first := pref[k]
			c.Count("splits_checked", 1)
			desc := func(extra map[string]any) any {
				d := cs.Describe()
				d["split_after_statement"] = k
				for a, b := range extra {
					d[a] = b
				}
				return d
			}
			if !first.OK() {
				// the whole script must fail the same way
				if full.OK() || full.Class != first.Class {
					c.Violation("first-half-fails", fmt.Sprintf("S1..S%d alone fails with %s but the whole script gives %s", k, first.Class, full.Summary()), desc(nil))
					return
				}
				c.Count("splits_full_run_failed", 1)
				continue
			}
			// B' = B + real postings of the first half + save reservations, statement by statement
			V := real.CopyBalances(cs.Balances)
			get := func(a, as string) *big.Int {
				if V[a] == nil {
					V[a] = map[string]*big.Int{}
				}
				if V[a][as] == nil {
					V[a][as] = new(big.Int)
				}
				return V[a][as]
			}
			prevLen := 0
			consistent := true
			sawSave := false
			changed := map[string]bool{}
			for j := 0; j < k && consistent; j++ {
				cur := pref[j+1]
				if !cur.OK() || len(cur.Postings) < prevLen || !postingsEqual(cur.Postings[:prevLen], first.Postings[:prevLen]) {
					consistent = false
					break
				}
				for _, p := range cur.Postings[prevLen:] {
					s := get(p.Src, p.Asset)
					s.Sub(s, p.Amt)
					d := get(p.Dst, p.Asset)
					d.Add(d, p.Amt)
					changed[p.Src], changed[p.Dst] = true, true
				}
				prevLen = len(cur.Postings)
				if sv, ok := cs.Script.Stmts[j].(*gen.Save); ok {
					sawSave = true
					acct, f := mod.Env.Eval(sv.From)
					if f != nil {
						return
					}
					a := string(acct.(model.VAccount))
					var asset string
					var amt *big.Int
					if sv.Sent.All {
						v, f := mod.Env.Eval(sv.Sent.E)
						if f != nil {
							return
						}
						asset = string(v.(model.VAsset))
					} else {
						v, f := mod.Env.Eval(sv.Sent.E)
						if f != nil {
							return
						}
						m := v.(model.VMonetary)
						asset, amt = m.Asset, m.Amt
					}
					b := get(a, asset)
					if b.Sign() > 0 {
						if amt == nil {
							b.SetInt64(0)
						} else if amt.Sign() >= 0 {
							b.Sub(b, amt)
							if b.Sign() < 0 {
								b.SetInt64(0)
							}
						}
						changed[a] = true
					}
				}
			}
			if !consistent {
				c.Violation("prefix-inconsistent", fmt.Sprintf("the results of the prefixes of S1..S%d are not prefixes of one another", k), desc(nil))
				return
			}
			sc2 := *cs
			sc2.Script = model.Suffix(cs.Script, k)
			sc2.Balances = V
			second, ok := runCaseText(c, &sc2)
			if !ok {
				return
			}
			bal2 := map[string]map[string]string{}
			for a, m := range V {
				bal2[a] = map[string]string{}
				for as, v := range m {
					bal2[a][as] = v.String()
				}
			}
			extra := map[string]any{"balances_for_second_half": bal2, "first_half": first.Summary(), "second_half": second.Summary(), "whole": full.Summary()}
			if sawSave {
				c.Count("splits_with_save_in_first_half", 1)
			}
			if !second.OK() {
				if second.Panicked {
					c.Violation("panic:"+second.Frame, "panic: "+second.PanicVal, desc(extra))
					return
				}
				if full.OK() || full.Class != second.Class {
					c.Violation("second-half-fails", fmt.Sprintf("S%d..S%d on the updated balances fails with %s but the whole script gives %s", k+1, n, second.Class, full.Summary()), desc(extra))
					return
				}
				c.Count("splits_full_run_failed", 1)
			} else {
				if !full.OK() {
					c.Violation("whole-fails", fmt.Sprintf("both halves succeed but the whole script fails with %s (%v)", full.Class, full.Err), desc(extra))
					return
				}
				want := append(append([]real.Posting{}, first.Postings...), second.Postings...)
				if !postingsEqual(want, full.Postings) {
					c.Violation("postings-differ", fmt.Sprintf("whole script: %v; halves: %v ++ %v", full.Postings, first.Postings, second.Postings), desc(extra))
					return
				}
				// metadata: last writer wins key by key
				if msg, over := metaMerge(first, second, full); msg != "" {
					c.Violation("metadata-merge", msg, desc(extra))
					return
				} else if over {
					c.Count("splits_with_metadata_override", 1)
				}
			}
			// non-trivial: second half names an account the first half changed
			g := model.CollectGrants(sc2.Script, mod.Env)
			dep := false
			for a := range changed {
				if g.Accounts[a] && a != "world" {
					dep = true
				}
			}
			if dep {
				c.Count("splits_where_second_half_depends_on_first", 1)
				c.Distinct(shapeKey(cs.Script) + "|" + itoa(k))
			}
			if c.WantSample() && idx%17 == 3 {
				c.Sample(map[string]any{"case": id, "input": desc(extra)})
			}
		}
	}
	for i, cs := range corpus() {
		id := "corpus/" + itoa(i)
		if c.Want(idx, id) {
			check(id, cs, "corpus")
		}
		idx++
	}
	forEachCase(c09Strata(), c.N(60000, 1500000), func(i int, id string, st *stratum, k int) {
		if !c.Want(1000+i, id) {
			return
		}
		idx = i
		cs := genCase(c.Rng(id), st.cfg)
		c09Store = real.Exact
		if k%2 == 1 {
			c09Store = real.Sparse
			c.Count("cases_on_a_store_that_omits_unknown_balances", 1)
		}
		c.Count("stratum_"+st.name, 1)
		check(id, cs, st.name)
	})
}

// metaMerge checks full = first ⊕ second for tx and account metadata. over reports whether
// some key was written by both halves.
func metaMerge(first, second, full *real.Outcome) (msg string, over bool) {
	want := map[string]string{}
	for k, v := range first.TxMeta {
		want[k] = fmt.Sprintf("%T(%s)", v, v.String())
	}
	for k, v := range second.TxMeta {
		if _, ok := want[k]; ok {
			over = true
		}
		want[k] = fmt.Sprintf("%T(%s)", v, v.String())
	}
	got := map[string]string{}
	for k, v := range full.TxMeta {
		got[k] = fmt.Sprintf("%T(%s)", v, v.String())
	}
	if showMap(want) != showMap(got) {
		return fmt.Sprintf("transaction metadata: whole script {%s}, halves merged {%s}", showMap(got), showMap(want)), over
	}
	wantA := map[string]string{}
	for a, m := range first.AcctMeta {
		for k, v := range m {
			wantA[a+"."+k] = v
		}
	}
	for a, m := range second.AcctMeta {
		for k, v := range m {
			if _, ok := wantA[a+"."+k]; ok {
				over = true
			}
			wantA[a+"."+k] = v
		}
	}
	gotA := map[string]string{}
	for a, m := range full.AcctMeta {
		for k, v := range m {
			gotA[a+"."+k] = v
		}
	}
	if showMap(wantA) != showMap(gotA) {
		return fmt.Sprintf("account metadata: whole script {%s}, halves merged {%s}", showMap(gotA), showMap(wantA)), over
	}
	return "", over
}

func showMap(m map[string]string) string {
	ks := make([]string, 0, len(m))
	for k := range m {
		ks = append(ks, k)
	}
	sort.Strings(ks)
	s := ""
	for _, k := range ks {
		s += k + "=" + m[k] + "; "
	}
	return s
}
