package main

import (
	"encoding/json"
	"fmt"
	"math/big"
	"strings"

	"github.com/formancehq/numscript"
	"github.com/formancehq/numscript/verifharness/fw"
	"github.com/formancehq/numscript/verifharness/gen"
	"github.com/formancehq/numscript/verifharness/model"
	"github.com/formancehq/numscript/verifharness/real"
	"github.com/formancehq/numscript/verifharness/rng"
)

func propC13() *fw.Prop {
	return &fw.Prop{
		ID: "C13", Level: "exploration",
		Rule:        "(a) portion texts: exhaustive n/d, n /d, n/ d, n / d for digit strings of length ≤ 2 (thorough ≤ 3) incl. leading zeros with value in [0,1] and d ≠ 0, exhaustive p% and p.q% for |p| ≤ 3, |q| ≤ 2 (thorough 3) with value ≤ 100%, random numerals up to 40 digits; each text is used as a literal and as a portion variable and observed twice: as the value handed to set_tx_meta and as the credits of `send [X d] … {T to @a remaining to @b}` with d a multiple of the reduced denominator; oracle = hand-written base-ten reading. (b) round trips: values of the six types (numbers/monetaries of any sign up to 10^40, accounts and assets of the literal grammar, arbitrary valid-UTF-8 strings, portions) are written by script 1 with set_account_meta and set_tx_meta; script 2 reads the stored text back through a meta()-origin variable and through a plain variable of the same type and re-exports it; values must be identical, the text must be a fixed point, and the JSON of the transaction metadata must decode to the account-metadata text. Distinct = texts whose decimal reading differs from their C-style (octal/hex) reading or that exceed 64 bits, plus all distinct round-tripped values. Added later: the value is kept under varied (account, key) shapes; a decoy under the other split of the same colon-joined text and a sibling key of the same account must be read as themselves; the reading script's variables map may hold entries named like the metadata-backed variables.",
		Assumptions: []string{trustedBase},
		Require:     []string{"portion_texts_checked", "texts_where_octal_reading_differs", "round_trips_checked", "exhaustive_spaces_completed", "values_beyond_64_bits", "arithmetic_cases"},
		Run:         runC13,
	}
}

func digitStrings(maxLen int) []string {
	var out []string
	for l := 1; l <= maxLen; l++ {
		n := pow(10, l)
		for v := 0; v < n; v++ {
			out = append(out, fmt.Sprintf("%0*d", l, v))
		}
	}
	return out
}

// cStyleDiffers: would a base-prefix-aware reader give another number for these digits?
func cStyleDiffers(digits string) bool {
	return len(digits) > 1 && digits[0] == '0' && strings.Trim(digits, "0") != ""
}

func ratOfValue(v numscript.Value) (*big.Rat, bool) {
	if v == nil {
		return nil, false
	}
	r, ok := new(big.Rat).SetString(v.String())
	return r, ok
}

// checkPortionText runs the literal and the variable form of a portion text.
func checkPortionText(c *fw.Ctx, text string, isPercent bool) bool {
	want, kind := model.PortionOfText(text)
	if kind != "" {
		return true // outside the property's domain
	}
	den := new(big.Int).Set(want.Denom())
	mult := big.NewInt(3)
	total := new(big.Int).Mul(den, mult)
	wantA := new(big.Int).Mul(want.Num(), mult)
	wantB := new(big.Int).Sub(total, wantA)
	var lit gen.Expr
	if isPercent {
		lit = &gen.Percent{Text: text}
	} else {
		lit = &gen.Ratio{Text: text}
	}
	mk := func(useVar bool) *gen.Case {
		var head gen.Allot
		var val gen.Expr
		sc := &gen.Script{Vars: []*gen.VarDecl{{Type: "monetary", Name: "n"}}}
		vars := map[string]string{"n": "X " + total.String()}
		if useVar {
			sc.Vars = append(sc.Vars, &gen.VarDecl{Type: "portion", Name: "p"})
			vars["p"] = text
			head, val = &gen.AllotVar{V: gen.V("p")}, gen.V("p")
		} else {
			head, val = &gen.AllotLit{Lit: lit}, lit
		}
		sc.Stmts = []gen.Stmt{
			&gen.Call{Name: "set_tx_meta", Args: []gen.Expr{gen.S("p"), val}},
			&gen.Send{Sent: &gen.SentValue{E: gen.V("n")}, Src: gen.SA("world"),
				Dst: &gen.DstAllot{Items: []*gen.DstAllotItem{{A: head, To: gen.To(gen.DA("a"))}, {A: &gen.AllotRemaining{}, To: gen.To(gen.DA("b"))}}}},
		}
		return mkCase(sc, vars, nil)
	}
	var seen [2]string
	for form := 0; form < 2; form++ {
		cs := mk(form == 1)
		formName := [...]string{"literal", "variable"}[form]
		input := func() any {
			d := cs.Describe()
			d["portion_text"], d["form"], d["base_ten_value"] = text, formName, want.String()
			return d
		}
		txt := gen.PrintCanonical(cs.Script).Text
		po := real.Parse(txt)
		if po.Panicked {
			c.Violation("panic:parse:"+po.Frame, fmt.Sprintf("parsing the portion %s %q panics: %s", formName, text, po.PanicVal), input())
			return false
		}
		if len(po.Errors) > 0 {
			c.Violation("portion-text-rejected", fmt.Sprintf("portion %s %q is rejected by the parser: %s", formName, text, po.Errors[0].Msg), input())
			return false
		}
		o, _ := real.RunCase(po.Result, cs, real.Exact)
		c.Eval()
		if o.Panicked {
			c.Violation("panic:"+o.Frame, fmt.Sprintf("portion %s %q: panic %s", formName, text, o.PanicVal), input())
			return false
		}
		if !o.OK() {
			c.Violation("portion-text-fails:"+formName, fmt.Sprintf("portion %s %q (= %s) fails: %v", formName, text, want, o.Err), input())
			return false
		}
		got, ok := ratOfValue(o.TxMeta["p"])
		if !ok || got.Cmp(want) != 0 {
			c.Violation("portion-value:"+formName, fmt.Sprintf("portion %s %q denotes %v, base-ten meaning is %s", formName, text, o.TxMeta["p"], want), input())
			return false
		}
		fl := flowsOf(o.Postings)
		ga, gb := fl[model.Pair{Src: "world", Dst: "a"}], fl[model.Pair{Src: "world", Dst: "b"}]
		if ga == nil {
			ga = new(big.Int)
		}
		if gb == nil {
			gb = new(big.Int)
		}
		if ga.Cmp(wantA) != 0 || gb.Cmp(wantB) != 0 {
			c.Violation("portion-split:"+formName, fmt.Sprintf("portion %s %q of %s credits a=%s b=%s, expected a=%s b=%s", formName, text, total, ga, gb, wantA, wantB), input())
			return false
		}
		seen[form] = o.Summary()
	}
	if seen[0] != seen[1] {
		c.Violation("literal-vs-variable", fmt.Sprintf("text %q: literal gives %s, variable gives %s", text, seen[0], seen[1]), map[string]any{"portion_text": text})
		return false
	}
	c.Count("portion_texts_checked", 1)
	return true
}

func runC13(c *fw.Ctx) {
	dl := 2
	ql := 2
	if !c.Quick {
		dl, ql = 3, 3
	}
	idx := 0
	// ---- (a1) ratios, exhaustive ----
	ds := digitStrings(dl)
	seps := []string{"/", " /", "/ ", " / "}
	for _, n := range ds {
		for _, d := range ds {
			idx++
			id := "ratio/" + n + "_" + d
			if !c.Want(idx, id) {
				continue
			}
			for si, sep := range seps {
				if !c.Quick && len(n)+len(d) == 6 && si > 0 && (idx+si)%4 != 0 {
					continue // 3+3 digits: the spaced forms are sampled
				}
				text := n + sep + d
				if !checkPortionText(c, text, false) {
					return
				}
				if cStyleDiffers(n) || cStyleDiffers(d) {
					if _, k := model.PortionOfText(text); k == "" {
						c.Count("texts_where_octal_reading_differs", 1)
						c.Distinct("ratio|" + text)
					}
				}
			}
		}
	}
	// ---- (a2) percentages, exhaustive ----
	ps := digitStrings(3)
	qs := append([]string{""}, digitStrings(ql)...)
	for _, p := range ps {
		for _, q := range qs {
			idx++
			id := "pct/" + p + "_" + q
			if !c.Want(idx, id) {
				continue
			}
			text := p + "%"
			if q != "" {
				text = p + "." + q + "%"
			}
			if !checkPortionText(c, text, true) {
				return
			}
			if cStyleDiffers(p+q) || cStyleDiffers(p) {
				if _, k := model.PortionOfText(text); k == "" {
					c.Count("texts_where_octal_reading_differs", 1)
					c.Distinct("pct|" + text)
				}
			}
		}
	}
	if c.Want(0, "exh/done") {
		c.Count("exhaustive_spaces_completed", 1)
	}
	// ---- (a3) random long numerals ----
	n := c.N(10000, 200000)
	for i := 0; i < n; i++ {
		id := "long/" + itoa(i)
		if !c.Want(60_000_000+i, id) {
			continue
		}
		r := c.Rng(id)
		var text string
		isPct := r.Bool()
		if isPct {
			// p.q% with value ≤ 100
			p := fmt.Sprint(r.Intn(100))
			if r.Chance(1, 10) {
				p = "100"
			}
			q := randDigits(r, r.Range(1, 38))
			if p == "100" {
				q = strings.Repeat("0", len(q))
			}
			if r.Chance(1, 4) {
				p = strings.Repeat("0", r.Range(1, 3)) + p
			}
			text = p + "." + q + "%"
		} else {
			d := new(big.Int).Add(r.Big(r.Range(8, 130)), big.NewInt(1))
			nn := new(big.Int).Mod(r.Big(140), new(big.Int).Add(d, big.NewInt(1)))
			ns, dstr := nn.String(), d.String()
			if r.Chance(1, 4) {
				ns = strings.Repeat("0", r.Range(1, 3)) + ns
			}
			if r.Chance(1, 4) {
				dstr = strings.Repeat("0", r.Range(1, 3)) + dstr
			}
			text = ns + r.Pick("/", " / ") + dstr
		}
		if !checkPortionText(c, text, isPct) {
			return
		}
		c.Count("values_beyond_64_bits", 1)
		c.Distinct("long|" + text)
	}
	// ---- (a4) a percentage with more than a million decimals (literal and variable must agree) ----
	if c.Want(64_000_000, "huge/1000001") {
		text := "0." + strings.Repeat("0", 1000000) + "5%"
		if !checkPortionText(c, text, true) {
			return
		}
		c.Count("million_digit_texts", 1)
	}
	// ---- (b0) a value used in arithmetic keeps its meaning ----
	n = c.N(6000, 200000)
	for i := 0; i < n; i++ {
		id := "arith/" + itoa(i)
		if !c.Want(65_000_000+i, id) {
			continue
		}
		if !arithKeeps(c, c.Rng(id), id) {
			return
		}
	}
	// ---- (b) round trips ----
	n = c.N(30000, 600000)
	for i := 0; i < n; i++ {
		id := "rt/" + itoa(i)
		if !c.Want(70_000_000+i, id) {
			continue
		}
		if !roundTrip(c, c.Rng(id), id, i) {
			return
		}
	}
}

// arithKeeps: a number / monetary variable written to metadata before and after it was used as an
// operand of + and − must render the same text both times, and the results must be exact.
func arithKeeps(c *fw.Ctx, r *rng.R, id string) bool {
	v, k := randSigned(r), randSigned(r)
	mon := r.Bool()
	typ, text, ktxt := "number", v.String(), k.String()
	var kexpr gen.Expr = &gen.Num{Text: ktxt}
	if mon {
		typ, text = "monetary", "USD "+v.String()
		kexpr = gen.M("USD", ktxt)
	}
	meta := func(key string, e gen.Expr) gen.Stmt {
		return &gen.Call{Name: "set_account_meta", Args: []gen.Expr{gen.A("acc"), gen.S(key), e}}
	}
	sc := &gen.Script{Vars: []*gen.VarDecl{{Type: typ, Name: "v"}}, Stmts: []gen.Stmt{
		meta("before", gen.V("v")),
		meta("minus", &gen.Infix{Op: '-', L: gen.V("v"), R: kexpr}),
		meta("plus", &gen.Infix{Op: '+', L: gen.V("v"), R: kexpr}),
		meta("minus_again", &gen.Infix{Op: '-', L: gen.V("v"), R: gen.CopyExpr(kexpr)}),
		meta("after", gen.V("v")),
		&gen.Call{Name: "set_tx_meta", Args: []gen.Expr{gen.S("after"), gen.V("v")}},
	}}
	cs := mkCase(sc, map[string]string{"v": text}, nil)
	o, ok := runCaseText(c, cs)
	if !ok {
		return true
	}
	input := func() any { d := cs.Describe(); d["outcome"] = o.Summary(); return d }
	if o.Panicked {
		c.Violation("panic:"+o.Frame, "panic: "+o.PanicVal, input())
		return false
	}
	if !o.OK() {
		c.Violation("arith-fails", fmt.Sprintf("arithmetic on a %s variable fails: %v", typ, o.Err), input())
		return false
	}
	pre := ""
	if mon {
		pre = "USD "
	}
	want := map[string]string{
		"before": pre + v.String(), "after": pre + v.String(),
		"minus": pre + new(big.Int).Sub(v, k).String(), "minus_again": pre + new(big.Int).Sub(v, k).String(),
		"plus": pre + new(big.Int).Add(v, k).String(),
	}
	for key, w := range want {
		got := o.AcctMeta["acc"][key]
		wv, _ := model.ParseVarText(typ, w)
		gv, f := model.ParseVarText(typ, got)
		if f != nil || !model.ValueEqual(wv, gv) {
			c.Violation("arith-value:"+key, fmt.Sprintf("%s: stored %q, expected the value %q (v = %s, k = %s)", key, got, w, text, ktxt), input())
			return false
		}
	}
	c.Count("arithmetic_cases", 1)
	c.Distinct("arith|" + typ + "|" + text + "|" + ktxt)
	return true
}

func randDigits(r *rng.R, n int) string {
	b := make([]byte, n)
	for i := range b {
		b[i] = byte('0' + r.Intn(10))
	}
	return string(b)
}

func randSigned(r *rng.R) *big.Int {
	var v *big.Int
	switch r.Intn(5) {
	case 0:
		v = r.Big(r.Range(64, 133))
	case 1:
		v = new(big.Int).Exp(big.NewInt(10), big.NewInt(int64(r.Range(18, 40))), nil)
		v.Add(v, big.NewInt(int64(r.Intn(10))))
	default:
		v = gen.SmallOrBig(r, 30)
	}
	if r.Chance(2, 5) {
		v.Neg(v)
	}
	return v
}

func randAccountName(r *rng.R) string {
	alpha := "abcXYZ019_-"
	nseg := r.Range(1, 3)
	var segs []string
	for s := 0; s < nseg; s++ {
		l := r.Range(1, 6)
		if r.Chance(1, 12) {
			// names of any length: 63..65, 127..129, 254..257, a thousand
			l = []int{63, 64, 65, 127, 128, 129, 254, 255, 256, 257, 1000}[r.Intn(11)]
		}
		b := make([]byte, l)
		for i := range b {
			b[i] = alpha[r.Intn(len(alpha))]
		}
		segs = append(segs, string(b))
	}
	return strings.Join(segs, ":")
}

func randAssetName(r *rng.R) string {
	// ASSET token of the grammar; starts with a letter so that it never lexes as a number or a
	// ratio, and never contains "//" (line comment)
	alpha := "USDEURX/0129"
	l := r.Range(1, 8)
	b := make([]byte, l)
	for i := range b {
		b[i] = alpha[r.Intn(len(alpha))]
		if i == 0 {
			b[i] = "USDEURX"[r.Intn(7)]
		}
		if i > 0 && b[i] == '/' && b[i-1] == '/' {
			b[i] = 'Z'
		}
	}
	return string(b)
}

func randString(r *rng.R) string {
	pieces := []string{"", "a", " ", "  x ", "é", "日本", "\"", "\\", "\n", "\t", "%", "1/2", "USD 5", "<kept>", "@a", "$v", "😀", "\u0000", "{}", "a b c", "\\\"", "say \\\"hi\\\"", "%d"}
	n := r.Range(0, 4)
	s := ""
	for i := 0; i < n; i++ {
		s += pieces[r.Intn(len(pieces))]
	}
	return s
}

func valueSig(v numscript.Value) string {
	if v == nil {
		return "<nil>"
	}
	return fmt.Sprintf("%T(%s)", v, v.String())
}

// roundTrip writes one value with script 1 and reads it back with script 2.
func roundTrip(c *fw.Ctx, r *rng.R, id string, i int) bool {
	types := []string{"number", "monetary", "portion", "account", "asset", "string"}
	typ := types[r.Intn(len(types))]
	var text string // variable text of the original value
	var lit gen.Expr
	big64 := false
	switch typ {
	case "number":
		v := randSigned(r)
		text = v.String()
		lit = &gen.Num{Text: text}
		big64 = !v.IsInt64()
	case "monetary":
		v := randSigned(r)
		as := randAssetName(r)
		text = as + " " + v.String()
		lit = &gen.Mon{Asset: &gen.Asset{Name: as}, Amount: &gen.Num{Text: v.String()}}
		big64 = !v.IsInt64()
	case "portion":
		d := new(big.Int).Add(r.Big(r.Range(1, 90)), big.NewInt(1))
		nn := new(big.Int).Mod(r.Big(100), new(big.Int).Add(d, big.NewInt(1)))
		text = nn.String() + "/" + d.String()
		lit = &gen.Ratio{Text: text}
		if r.Chance(1, 3) {
			p := r.Intn(101)
			text = fmt.Sprintf("%d%%", p)
			lit = &gen.Percent{Text: text}
		}
		big64 = !d.IsInt64()
	case "account":
		text = randAccountName(r)
		lit = &gen.Account{Name: text}
	case "asset":
		text = randAssetName(r)
		lit = &gen.Asset{Name: text}
	case "string":
		text = randString(r)
		// writable as a literal: no line break, and quotes only in the escaped form \"
		if rest := strings.ReplaceAll(text, "\\\"", ""); !strings.ContainsAny(rest, "\"\n\r\\") {
			lit = &gen.Str{S: text}
		}
	}
	useLit := lit != nil && r.Chance(1, 3)
	// where the value is kept: account and key of several shapes; a second entry, whose
	// (account, key) is another split of the same colon-joined text, holds something else
	acct := r.Pick("acc", "acc", "users:1234", "u:1", "a:b:c", "world:x")
	key := r.Pick("k", "k", "limit", "1:k", "b:c", "", "k k")
	acct2, key2, split := gen.Resplit(r, acct, key)
	if !split || acct2 == acct {
		acct2, key2 = "other", key
	}
	const decoy = "something else"
	// script 1
	sc1 := &gen.Script{}
	vars1 := map[string]string{}
	var val gen.Expr = gen.V("v")
	if useLit {
		val = lit
	} else {
		sc1.Vars = []*gen.VarDecl{{Type: typ, Name: "v"}}
		vars1["v"] = text
	}
	sc1.Stmts = []gen.Stmt{
		&gen.Call{Name: "set_account_meta", Args: []gen.Expr{gen.A(acct), gen.S(key), val}},
		&gen.Call{Name: "set_tx_meta", Args: []gen.Expr{gen.S("k"), val}},
	}
	cs1 := mkCase(sc1, vars1, nil)
	input := func(extra map[string]any) any {
		d := map[string]any{"type": typ, "original_text": text, "written_as_literal": useLit, "script1": gen.PrintCanonical(sc1).Text, "vars1": vars1}
		for k, v := range extra {
			d[k] = v
		}
		return d
	}
	o1, ok := runCaseText(c, cs1)
	if !ok {
		return true
	}
	if o1.Panicked {
		c.Violation("panic:"+o1.Frame, "panic: "+o1.PanicVal, input(nil))
		return false
	}
	if !o1.OK() {
		c.Violation("write-fails", fmt.Sprintf("writing a %s value %q fails: %v", typ, text, o1.Err), input(nil))
		return false
	}
	stored, has := o1.AcctMeta[acct][key]
	if !has {
		c.Violation("not-stored", "set_account_meta did not produce the entry", input(nil))
		return false
	}
	v1 := o1.TxMeta["k"]
	// the tx metadata JSON must decode to the same text
	js, err := json.Marshal(v1)
	var decoded string
	if err != nil || json.Unmarshal(js, &decoded) != nil || decoded != stored {
		c.Violation("tx-json-differs", fmt.Sprintf("account metadata text %q, transaction metadata JSON %s", stored, js), input(nil))
		return false
	}
	// script 2: read back through meta() and through a plain variable
	sc2 := &gen.Script{Vars: []*gen.VarDecl{
		{Type: typ, Name: "w", Origin: &gen.Call{Name: "meta", Args: []gen.Expr{gen.A(acct), gen.S(key)}}},
		{Type: typ, Name: "x"},
		{Type: "string", Name: "d", Origin: &gen.Call{Name: "meta", Args: []gen.Expr{gen.A(acct2), gen.S(key2)}}},
		{Type: "string", Name: "s", Origin: &gen.Call{Name: "meta", Args: []gen.Expr{gen.A(acct), gen.S(key + "_sibling")}}},
		{Type: "string", Name: "t", Origin: &gen.Call{Name: "meta", Args: []gen.Expr{gen.A(acct), gen.S(key)}}},
	}, Stmts: []gen.Stmt{
		&gen.Call{Name: "set_tx_meta", Args: []gen.Expr{gen.S("same_entry_as_text"), gen.V("t")}},
		&gen.Call{Name: "set_tx_meta", Args: []gen.Expr{gen.S("from_sibling_key"), gen.V("s")}},
		&gen.Call{Name: "set_tx_meta", Args: []gen.Expr{gen.S("from_other_entry"), gen.V("d")}},
		&gen.Call{Name: "set_tx_meta", Args: []gen.Expr{gen.S("from_meta"), gen.V("w")}},
		&gen.Call{Name: "set_tx_meta", Args: []gen.Expr{gen.S("from_var"), gen.V("x")}},
		&gen.Call{Name: "set_account_meta", Args: []gen.Expr{gen.A(acct), gen.S("k2"), gen.V("w")}},
	}}
	if r.Bool() {
		// the other entry is read first
		sc2.Vars[0], sc2.Vars[2] = sc2.Vars[2], sc2.Vars[0]
	}
	if r.Bool() {
		// the same entry is read as a string before it is read with its own type
		last := len(sc2.Vars) - 1
		sc2.Vars = append([]*gen.VarDecl{sc2.Vars[last]}, sc2.Vars[:last]...)
	}
	cs2 := mkCase(sc2, map[string]string{"x": stored}, nil)
	cs2.Meta = map[string]map[string]string{acct: {key: stored}}
	if cs2.Meta[acct2] == nil {
		cs2.Meta[acct2] = map[string]string{}
	}
	cs2.Meta[acct2][key2] = decoy
	cs2.Meta[acct][key+"_sibling"] = "sibling value"
	if r.Chance(1, 3) {
		// the caller's variables map also has entries named like the metadata-backed variables
		// (a map shared between scripts): the declarations say where their values come from
		cs2.Vars["w"], cs2.Vars["d"], cs2.Vars["s"] = r.Pick("USD 7", "1/2", "-1", "world", ""), "not the decoy", "not the sibling"
		c.Count("runs_with_variables_named_like_metadata_backed_ones", 1)
	}
	o2, ok := runCaseText(c, cs2)
	if !ok {
		return true
	}
	ex := map[string]any{"stored_text": stored, "script2": gen.PrintCanonical(sc2).Text}
	if o2.Panicked {
		c.Violation("panic:"+o2.Frame, "panic: "+o2.PanicVal, input(ex))
		return false
	}
	if !o2.OK() {
		c.Violation("read-back-fails:"+typ, fmt.Sprintf("the stored text %q of a %s value cannot be read back: %v", stored, typ, o2.Err), input(ex))
		return false
	}
	a, b := o2.TxMeta["from_meta"], o2.TxMeta["from_var"]
	if valueSig(a) != valueSig(v1) || valueSig(b) != valueSig(v1) {
		c.Violation("round-trip-value:"+typ, fmt.Sprintf("written %s; read back through meta(): %s; through a variable: %s", valueSig(v1), valueSig(a), valueSig(b)), input(ex))
		return false
	}
	if od := o2.TxMeta["from_other_entry"]; od == nil || od.String() != decoy {
		c.Violation("other-entry-read", fmt.Sprintf("meta(@%s, %q) holds %q but the variable reading it has the value %s", acct2, key2, decoy, valueSig(od)), input(ex))
		return false
	}
	if sv := o2.TxMeta["from_sibling_key"]; sv == nil || sv.String() != "sibling value" {
		c.Violation("sibling-key-read", fmt.Sprintf("meta(@%s, %q) holds %q but the variable reading it has the value %s", acct, key+"_sibling", "sibling value", valueSig(sv)), input(ex))
		return false
	}
	if tv := o2.TxMeta["same_entry_as_text"]; tv == nil || tv.String() != stored {
		c.Violation("same-entry-read-as-string", fmt.Sprintf("meta(@%s, %q) holds %q; read as a string (next to a %s variable reading the same entry) it is %s", acct, key, stored, typ, valueSig(tv)), input(ex))
		return false
	}
	c.Count("other_entries_read", 1)
	if again := o2.AcctMeta[acct]["k2"]; again != stored {
		c.Violation("text-not-fixed-point", fmt.Sprintf("stored %q, re-exported %q", stored, again), input(ex))
		return false
	}
	// independent expectation for the value itself
	// (the stored text need not be canonical — only its base-ten reading is compared)
	if want, f := model.ParseVarText(typ, text); f == nil {
		got, f2 := model.ParseVarText(typ, stored)
		if f2 != nil || !model.ValueEqual(want, got) {
			c.Violation("stored-text:"+typ, fmt.Sprintf("a %s value given as %q is stored as %q, which does not denote the same value (%q)", typ, text, stored, model.Text(want)), input(ex))
			return false
		}
	}
	c.Count("round_trips_checked", 1)
	c.Count("round_trips_"+typ, 1)
	if big64 {
		c.Count("values_beyond_64_bits", 1)
	}
	c.Distinct("rt|" + typ + "|" + text)
	if c.WantSample() && i%23 == 4 {
		c.Sample(map[string]any{"case": id, "input": input(ex), "value": valueSig(v1)})
	}
	return true
}
