package main

import (
	"fmt"
	"math/big"

	"github.com/formancehq/numscript/verifharness/fw"
	"github.com/formancehq/numscript/verifharness/gen"
	"github.com/formancehq/numscript/verifharness/model"
)

// corpus: the inputs of DESIGN §2.3 (and every input that ever produced a violation). They are
// prepended to every ledger run so that a repaired defect that returns is reported again.
func corpus() []*gen.Case {
	send := func(sent *gen.SentValue, src gen.Source, dst gen.Dest) *gen.Send {
		return &gen.Send{Sent: sent, Src: src, Dst: dst}
	}
	fixed := func(asset, n string) *gen.SentValue { return &gen.SentValue{E: gen.M(asset, n)} }
	all := func(asset string) *gen.SentValue { return &gen.SentValue{All: true, E: gen.As(asset)} }
	seq := func(s ...gen.Source) gen.Source { return &gen.SrcInorder{Srcs: s} }
	od := func(a, n string) gen.Source { return &gen.SrcOverdraft{Addr: gen.A(a), Bounded: gen.M("USD", n)} }
	sc := func(st ...gen.Stmt) *gen.Script { return &gen.Script{Stmts: st} }
	return []*gen.Case{
		// D1 repeated account
		mkCase(sc(send(fixed("USD", "20"), seq(gen.SA("a"), gen.SA("a")), gen.DA("b"))), nil, map[string]string{"a/USD": "10"}),
		// D2 negative balance in an in-order source
		mkCase(sc(send(fixed("USD", "20"), seq(gen.SA("a"), gen.SA("c")), gen.DA("b"))), nil, map[string]string{"a/USD": "-5", "c/USD": "30"}),
		// D3 send-all from a negative balance
		mkCase(sc(send(all("USD"), gen.SA("a"), gen.DA("b"))), nil, map[string]string{"a/USD": "-5"}),
		// D4 negative destination cap
		mkCase(sc(send(fixed("USD", "20"), gen.SA("world"), &gen.DstInorder{
			Clauses: []*gen.DstClause{{Cap: gen.M("USD", "-5"), To: gen.To(gen.DA("a"))}}, Remaining: gen.To(gen.DA("b"))})), nil, nil),
		// D5 kept larger than the first source's share
		mkCase(sc(send(fixed("USD", "20"), seq(gen.SA("a"), gen.SA("c")), &gen.DstInorder{
			Clauses: []*gen.DstClause{{Cap: gen.M("USD", "15"), To: gen.Kept()}}, Remaining: gen.To(gen.DA("b"))})), nil,
			map[string]string{"a/USD": "10", "c/USD": "10"}),
		// D6 save on a negative balance must not raise it
		mkCase(sc(&gen.Save{Sent: fixed("USD", "10"), From: gen.A("a")},
			send(fixed("USD", "3"), od("a", "3"), gen.DA("b"))), nil, map[string]string{"a/USD": "-5"}),
		// repeated account with overdraft on the second mention: exactly balance + bound
		mkCase(sc(send(fixed("USD", "15"), seq(gen.SA("a"), od("a", "5")), gen.DA("b"))), nil, map[string]string{"a/USD": "10"}),
		mkCase(sc(send(fixed("USD", "16"), seq(gen.SA("a"), od("a", "5")), gen.DA("b"))), nil, map[string]string{"a/USD": "10"}),
		// send-all with a repeated account
		mkCase(sc(send(all("USD"), seq(gen.SA("a"), od("a", "5"), gen.SA("a")), gen.DA("b"))), nil, map[string]string{"a/USD": "10"}),
		// kept spanning three sources
		mkCase(sc(send(fixed("USD", "30"), seq(gen.SA("a"), gen.SA("b"), gen.SA("c")), &gen.DstInorder{
			Clauses: []*gen.DstClause{{Cap: gen.M("USD", "4"), To: gen.To(gen.DA("d"))}, {Cap: gen.M("USD", "21"), To: gen.Kept()}}, Remaining: gen.To(gen.DA("d"))})), nil,
			map[string]string{"a/USD": "10", "b/USD": "10", "c/USD": "10"}),
		// save then spend what is left; save more than the balance
		mkCase(sc(&gen.Save{Sent: fixed("USD", "7"), From: gen.A("a")}, send(fixed("USD", "3"), gen.SA("a"), gen.DA("b"))), nil, map[string]string{"a/USD": "10"}),
		mkCase(sc(&gen.Save{Sent: fixed("USD", "7"), From: gen.A("a")}, send(fixed("USD", "4"), gen.SA("a"), gen.DA("b"))), nil, map[string]string{"a/USD": "10"}),
		mkCase(sc(&gen.Save{Sent: all("USD"), From: gen.A("a")}, send(all("USD"), gen.SA("a"), gen.DA("b"))), nil, map[string]string{"a/USD": "10"}),
	}
}

// ---- C01 ----

func monC01(c *fw.Ctx, e *exec, stratum string) {
	if !e.out.OK() {
		c.Count("runs_failed", 1)
		return
	}
	c.Count("runs_succeeded", 1)
	if e.mod.Env == nil {
		return
	}
	g := model.CollectGrants(e.c.Script, e.mod.Env)
	R := map[model.Pair]*big.Int{}
	start := func(a, as string) *big.Int {
		if b, ok := e.c.Balances[a][as]; ok && b != nil {
			return b
		}
		return new(big.Int)
	}
	get := func(a, as string) *big.Int {
		k := model.Pair{Src: a, Dst: as}
		if R[k] == nil {
			R[k] = new(big.Int).Set(start(a, as))
		}
		return R[k]
	}
	bound := func(a, as string) *big.Int {
		b := new(big.Int).Set(start(a, as))
		gr := new(big.Int)
		if m, ok := g.Max[model.Pair{Src: a, Dst: as}]; ok {
			gr.Neg(m)
		}
		if gr.Cmp(b) < 0 {
			return gr
		}
		return b
	}
	debited := false
	tight := false
	for i, p := range e.out.Postings {
		c.Count("postings_replayed", 1)
		s := get(p.Src, p.Asset)
		s.Sub(s, p.Amt)
		d := get(p.Dst, p.Asset)
		d.Add(d, p.Amt)
		for _, acct := range []string{p.Src, p.Dst} {
			if g.Exempt[acct] {
				continue
			}
			debited = debited || acct == p.Src
			cur := get(acct, p.Asset)
			bd := bound(acct, p.Asset)
			if cur.Cmp(bd) < 0 {
				c.Violation("overdraft", fmt.Sprintf("after posting #%d (%s) account %s holds %s %s, below its bound %s (start %s)",
					i, p, acct, cur, p.Asset, bd, start(acct, p.Asset)), e.input())
				return
			}
			if cur.Cmp(bd) == 0 && acct == p.Src {
				tight = true
			}
		}
	}
	if debited {
		key := stratum + "|" + shapeKey(e.c.Script)
		if tight {
			key += "|tight"
			c.Count("tight_cases", 1)
		}
		c.Distinct(key)
		c.Count("nontrivial_debiting_runs", 1)
	}
}

// ---- C02 ----

func monC02(c *fw.Ctx, e *exec, stratum string, hostile bool) {
	if !e.out.OK() {
		c.Count("runs_failed", 1)
		return
	}
	c.Count("runs_succeeded", 1)
	var names map[string]bool
	if e.mod.Env != nil && !hostile {
		names = model.CollectGrants(e.c.Script, e.mod.Env).Accounts
	}
	for i, p := range e.out.Postings {
		c.Count("postings_inspected", 1)
		if p.Amt.Sign() <= 0 {
			c.Violation("nonpositive-posting", fmt.Sprintf("posting #%d %s has a non-positive amount", i, p), e.input())
			return
		}
		for _, n := range []string{p.Src, p.Dst} {
			// (the property names the empty name and the kept marker; whether other spellings are
			// acceptable account names is not for this monitor to decide)
			if n == "" || n == "<kept>" {
				c.Violation("bad-account-name", fmt.Sprintf("posting #%d %s names %q", i, p, n), e.input())
				return
			}
			if names != nil && !names[n] {
				c.Violation("foreign-account-name", fmt.Sprintf("posting #%d %s names %q, which the script never mentions", i, p, n), e.input())
				return
			}
		}
	}
	if len(e.out.Postings) == 0 {
		return
	}
	// asset of the producing statement
	if e.mod.Fail == nil && e.attribute(c) {
		for i, ps := range e.perStmt {
			for _, p := range ps {
				c.Count("postings_attributed", 1)
				if i >= len(e.mod.Stmts) {
					break
				}
				ms := e.mod.Stmts[i]
				if ms.Kind != "send" && ms.Kind != "sendall" {
					c.Violation("posting-from-non-send", fmt.Sprintf("statement %d (%s) produced posting %s", i, ms.Kind, p), e.input())
					return
				}
				if p.Asset != ms.Asset {
					c.Violation("wrong-asset", fmt.Sprintf("statement %d sends %s but produced posting %s", i, ms.Asset, p), e.input())
					return
				}
			}
		}
	}
	c.Distinct(stratum + "|" + shapeKey(e.c.Script))
}

// ---- model comparison shared by C03 C04 C05 C07 C08 ----

type projection int

const (
	projTotals projection = iota
	projRows
	projCols
	projMatrix
)

// compareModel checks outcome agreement and the chosen projection of every statement's flow
// matrix. It returns false after reporting a violation.
func compareModel(c *fw.Ctx, e *exec, proj projection) bool {
	if e.mod.Undetermined != "" {
		c.Count("skipped_undetermined", 1)
		return true
	}
	if e.out.Panicked {
		c.Violation("panic:"+e.out.Frame, "panic during execution: "+e.out.PanicVal, e.input())
		return false
	}
	if e.out.NonZeroOnError {
		c.Violation("result-with-error", fmt.Sprintf("a non-empty result was returned together with error %v", e.out.Err), e.input())
		return false
	}
	if d := e.outcomeAgrees(); d != "" {
		sig := "outcome"
		if e.mod.Fail == nil {
			sig = "spurious-failure:" + e.out.Class
		} else if e.out.Err == nil {
			sig = "missed-failure:" + e.mod.Fail.Kind
		} else {
			sig = "wrong-error:" + e.mod.Fail.Kind + "/" + e.out.Class
		}
		c.Violation(sig, d, e.input())
		return false
	}
	if e.mod.Fail != nil {
		c.Count("agreed_failures", 1)
		c.Count("agreed_failure_"+e.mod.Fail.Kind, 1)
		return true
	}
	c.Count("agreed_successes", 1)
	if len(e.c.Script.Stmts) == 0 {
		return true
	}
	if !e.attribute(c) {
		c.Violation("prefix-inconsistent", "the postings of a prefix of the script are not a prefix of the postings of the script", e.input())
		return false
	}
	for i, ms := range e.mod.Stmts {
		real := flowsOf(e.perStmt[i])
		if ms.Kind == "save" || ms.Kind == "call" {
			if len(e.perStmt[i]) != 0 {
				c.Violation("posting-from-non-send", fmt.Sprintf("statement %d (%s) produced postings %v", i, ms.Kind, e.perStmt[i]), e.input())
				return false
			}
			continue
		}
		c.Count("statements_compared", 1)
		want := ms.Flows
		switch proj {
		case projTotals:
			w := new(big.Int).Sub(ms.Sent, ms.Kept)
			if total(real).Cmp(w) != 0 {
				c.Violation("total", fmt.Sprintf("statement %d: postings add up to %s, expected sent %s − kept %s = %s; postings %v",
					i, total(real), ms.Sent, ms.Kept, w, e.perStmt[i]), e.input())
				return false
			}
		case projRows:
			if !equalSums(rowSums(real), rowSums(want)) {
				c.Violation("debits", fmt.Sprintf("statement %d: debits per account {%s}, expected greedy draw {%s}; postings %v",
					i, showSums(rowSums(real)), showSums(rowSums(want)), e.perStmt[i]), e.input())
				return false
			}
		case projCols:
			if !equalSums(colSums(real), colSums(want)) {
				c.Violation("credits", fmt.Sprintf("statement %d: credits per account {%s}, expected distribution {%s}; postings %v",
					i, showSums(colSums(real)), showSums(colSums(want)), e.perStmt[i]), e.input())
				return false
			}
			cr := total(real)
			if new(big.Int).Add(cr, ms.Kept).Cmp(ms.Sent) != 0 {
				c.Violation("conservation", fmt.Sprintf("statement %d: credited %s + kept %s ≠ sent %s", i, cr, ms.Kept, ms.Sent), e.input())
				return false
			}
		case projMatrix:
			if !equalFlows(real, want) {
				c.Violation("flows", fmt.Sprintf("statement %d: flows {%s}, expected FIFO pairing {%s}; draws %v dists %v",
					i, showFlows(real), showFlows(want), ms.Draws, ms.Dists), e.input())
				return false
			}
		}
	}
	return true
}

func legs(ls []model.Leg) string {
	s := ""
	for _, l := range ls {
		n := l.Name
		if n == model.Kept {
			n = "<kept>"
		}
		s += fmt.Sprintf("%s:%s ", n, l.Amt)
	}
	return s
}
