package main

import (
	"context"
	"fmt"
	"strings"

	"github.com/formancehq/numscript/verifharness/fw"
	"github.com/formancehq/numscript/verifharness/gen"
	"github.com/formancehq/numscript/verifharness/model"
	"github.com/formancehq/numscript/verifharness/real"
	"github.com/formancehq/numscript/verifharness/rng"
)

func propC12() *fw.Prop {
	return &fw.Prop{
		ID: "C12", Level: "fault_enumeration",
		Rule:        "(a) single-fault oracle: exactly one fault is planted into an otherwise succeeding generated script (hostile variable text per declared type, missing variable, unknown type, negative amount, mismatched asset, ill-typed operand, undeclared variable, unknown function, wrong arity, missing metadata, negative balance read, overdraft() without its flag, broken allotment sum, n/0 portion) and the outcome must be an error of the class that is a function of the fault — or, for faults at positions the execution need not reach, exactly the result of the unfaulted script; never a panic, never a result together with an error. (b) store-fault enumeration: the script is run fault-free counting its N store calls, then re-run N times with the k-th call (balances and metadata counted together) failing with a unique message, for EVERY k ≤ N: the run must fail, return the zero result, carry the message, and be classed as a store failure of the right kind. (c) crash/atomicity only: grammar-complete but ill-typed scripts with arbitrary variable text. Distinct = (fault kind, position class) and (script shape, k, call kind) pairs. Added later: the injected store error varies in shape (plain, wrapping with %w, a type with Unwrap, joined errors); portions above 100 % with 1..40 decimals; statement functions used as origins; portion literals with a zero denominator in 12 spellings (zero numerators included) at six positions.",
		Assumptions: []string{trustedBase},
		Require:     []string{"planted_faults_checked", "store_faults_enumerated", "store_faults_on_metadata_calls", "store_faults_on_balance_calls", "illtyped_runs"},
		Run:         runC12,
	}
}

// Texts for which no reading of the declared type exists: the expected error class is a function
// of the text. (Texts a lenient reader could legitimately accept — blanks around a number, other
// numeral notations, full-width digits — are in arguableByType and only go through the crash and
// atomicity monitors.)
var hostileByType = map[string][]struct{ text, class string }{
	"number":   {{"", model.EBadNumber}, {"abc", model.EBadNumber}, {"--5", model.EBadNumber}, {"5-", model.EBadNumber}, {"USD 5", model.EBadNumber}, {"1/2", model.EBadNumber}, {"@a", model.EBadNumber}},
	"monetary": {{"", model.EBadMonetary}, {"USD", model.EBadMonetary}, {"USD 1 2", model.EBadMonetary}, {"USD x", model.EBadNumber}, {"USD --1", model.EBadNumber}, {"USD @a", model.EBadNumber}},
	"portion": {{"", model.EBadPortion}, {"abc", model.EBadPortion}, {"150%", model.EBadPortion}, {"3/2", model.EBadPortion}, {"1/0", model.EBadPortion}, {"0/0", model.EBadPortion}, {"1/00", model.EBadPortion}, {"0/000", model.EBadPortion}, {"7 / 00", model.EBadPortion}, {"12/ 0", model.EBadPortion}, {"00/00", model.EBadPortion},
		{"101%", model.EBadPortion}, {"100.0001%", model.EBadPortion}, {"2/1", model.EBadPortion}, {"%", model.EBadPortion}, {"1/", model.EBadPortion}, {"/2", model.EBadPortion}, {"-1/2", model.EBadPortion}, {"1//2", model.EBadPortion}, {"1/2/3", model.EBadPortion}, {"1/2%", model.EBadPortion}, {"USD 5", model.EBadPortion}},
	"account": {{"", model.EBadAccount}, {"<kept>", model.EBadAccount}, {"a b", model.EBadAccount}, {"a:", model.EBadAccount}, {"a\n", model.EBadAccount}, {":a", model.EBadAccount}, {"a::b", model.EBadAccount}},
}

var arguableByType = map[string][]string{
	"number":   {"1.5", "１２", " 5", "5 ", "0x10", "1e3", "1_000", "+5", "٣"},
	"monetary": {"USD  1", "USD 1.0", "USD ", "USD 0x1F", "USD 1e2", " USD 1", "USD 1 ", "USD +1"},
	"portion":  {"50", "50 %", ".5%", "1/2 ", " 1/2", "0x1/2", "1e0/2", "5e-1", "0.5", "１/２"},
	"account":  {"@a", "é", "A.B", "a/b"},
}

type fault struct {
	kind    string
	classes []string // acceptable error classes
	// mayBeUnreached: the outcome may also equal the control outcome
	mayBeUnreached bool
	// anyOutcome: only the crash and atomicity monitors apply
	anyOutcome bool
}

// plant mutates a copy-free case in place (the generator is re-run for the control) and returns
// the fault descriptor, or nil if this fault cannot be planted into this case.
func plant(r *rng.R, cs *gen.Case) *fault {
	sc := cs.Script
	var plain []*gen.VarDecl
	for _, d := range sc.Vars {
		if d.Origin == nil {
			plain = append(plain, d)
		}
	}
	sends := []*gen.Send{}
	for _, st := range sc.Stmts {
		if s, ok := st.(*gen.Send); ok {
			sends = append(sends, s)
		}
	}
	for attempt := 0; attempt < 12; attempt++ {
		switch r.Intn(18) {
		case 17: // a statement function used as a variable origin
			sc.Vars = append(sc.Vars, &gen.VarDecl{Type: r.Pick("string", "number", "monetary"), Name: "misplaced",
				Origin: &gen.Call{Name: r.Pick("set_tx_meta", "set_account_meta"), Args: []gen.Expr{gen.S("k"), gen.S("v")}}})
			if r.Bool() {
				sc.Stmts = append(sc.Stmts, &gen.Call{Name: "set_tx_meta", Args: []gen.Expr{gen.S("m"), gen.V("misplaced")}})
				cs.Tune = append(cs.Tune, nil)
			}
			return &fault{kind: "statement-function-as-origin", classes: []string{model.EUnboundFn}}
		case 16: // a second `remaining` clause in an allotment (grammatical; meaning not specified)
			for _, s := range sends {
				if d, ok := s.Dst.(*gen.DstAllot); ok && len(d.Items) >= 2 {
					d.Items[r.Intn(len(d.Items))].A = &gen.AllotRemaining{}
					d.Items[r.Intn(len(d.Items))].A = &gen.AllotRemaining{}
					return &fault{kind: "duplicate-remaining", anyOutcome: true}
				}
				if a, ok := s.Src.(*gen.SrcAllot); ok && len(a.Items) >= 2 {
					a.Items[0].A = &gen.AllotRemaining{}
					a.Items[len(a.Items)-1].A = &gen.AllotRemaining{}
					return &fault{kind: "duplicate-remaining", anyOutcome: true}
				}
			}
		case 0: // hostile variable text
			if len(plain) == 0 {
				continue
			}
			d := plain[r.Intn(len(plain))]
			if as := arguableByType[d.Type]; len(as) > 0 && r.Chance(1, 4) {
				// texts a lenient reader may accept: crash and atomicity monitors only
				t := as[r.Intn(len(as))]
				cs.Vars[d.Name] = t
				return &fault{kind: "var-text-arguable:" + d.Type + ":" + t, anyOutcome: true}
			}
			hs := hostileByType[d.Type]
			if len(hs) == 0 {
				continue
			}
			// the FIRST declared plain variable with a bad text decides the error: only poison d if
			// no variable declared before it could also fail — all others keep their good values.
			h := hs[r.Intn(len(hs))]
			if d.Type == "portion" && r.Chance(1, 3) {
				// n/0…0 with any number of digits and zeros
				h.text = randDigits(r, r.Range(1, 4)) + r.Pick("/", " /", "/ ", " / ") + strings.Repeat("0", r.Range(1, 5))
				h.class = model.EBadPortion
			} else if d.Type == "portion" && r.Chance(1, 3) {
				// a percentage above 100 written with any number of decimals
				h.text = itoa(101+r.Intn(900)) + "." + randDigits(r, r.Range(1, 40)) + "%"
				h.class = model.EBadPortion
			}
			cs.Vars[d.Name] = h.text
			// (a lenient reader that accepts the text with the value it had is not a C12 violation:
			// the outcome may also equal the control's)
			return &fault{kind: "var-text:" + d.Type + ":" + h.text, classes: []string{h.class}, mayBeUnreached: true}
		case 1: // missing variable
			if len(plain) == 0 {
				continue
			}
			d := plain[r.Intn(len(plain))]
			delete(cs.Vars, d.Name)
			return &fault{kind: "missing-var", classes: []string{model.EMissingVar}}
		case 2: // unknown type
			if len(plain) == 0 {
				continue
			}
			d := plain[r.Intn(len(plain))]
			d.Type = r.Pick("foo", "int", "numbers", "accounts")
			return &fault{kind: "unknown-type", classes: []string{model.EInvalidType}}
		case 3: // negative amount
			for _, s := range sends {
				if s.Sent.All {
					continue
				}
				if m, ok := s.Sent.E.(*gen.Mon); ok {
					if n, ok := m.Amount.(*gen.Num); ok {
						n.Text = "-" + strings.TrimPrefix(n.Text, "-")
						if strings.Trim(n.Text, "-0") == "" {
							n.Text = "-1" // minus zero (however many zeros) is not negative
						}
						return &fault{kind: "negative-amount", classes: []string{model.ENegativeAmount}}
					}
				}
			}
		case 4: // mismatched asset in a cap / overdraft bound
			for _, s := range sends {
				var hit *gen.Mon
				var walk func(x gen.Source)
				walk = func(x gen.Source) {
					switch x := x.(type) {
					case *gen.SrcCapped:
						if m, ok := x.Cap.(*gen.Mon); ok && hit == nil {
							hit = m
						}
						walk(x.From)
					case *gen.SrcOverdraft:
						if m, ok := x.Bounded.(*gen.Mon); ok && hit == nil {
							hit = m
						}
					case *gen.SrcInorder:
						for _, y := range x.Srcs {
							walk(y)
						}
					case *gen.SrcAllot:
						for _, it := range x.Items {
							walk(it.From)
						}
					}
				}
				walk(s.Src)
				if hit != nil {
					if a, ok := hit.Asset.(*gen.Asset); ok {
						a.Name = "ZZZ"
						return &fault{kind: "mismatched-asset", classes: []string{model.EMismatchedAsset}, mayBeUnreached: true}
					}
				}
			}
		case 5: // ill-typed source account
			if len(sends) == 0 {
				continue
			}
			s := sends[r.Intn(len(sends))]
			if _, ok := s.Src.(*gen.SrcAccount); ok {
				s.Src = &gen.SrcAccount{E: r2expr(r, "account")}
				return &fault{kind: "type:source-account", classes: []string{model.EType}}
			}
		case 6: // ill-typed destination account
			if len(sends) == 0 {
				continue
			}
			s := sends[r.Intn(len(sends))]
			if _, ok := s.Dst.(*gen.DstAccount); ok {
				s.Dst = &gen.DstAccount{E: r2expr(r, "account")}
				return &fault{kind: "type:destination-account", classes: []string{model.EType}, mayBeUnreached: true}
			}
		case 7: // ill-typed sent value
			if len(sends) == 0 {
				continue
			}
			s := sends[r.Intn(len(sends))]
			if s.Sent.All {
				s.Sent.E = r2expr(r, "asset")
			} else {
				s.Sent.E = r2expr(r, "monetary")
			}
			return &fault{kind: "type:sent-value", classes: []string{model.EType}}
		case 8: // undeclared variable
			if len(sends) == 0 {
				continue
			}
			s := sends[r.Intn(len(sends))]
			if _, ok := s.Src.(*gen.SrcAccount); ok {
				s.Src = &gen.SrcAccount{E: gen.V("nope")}
				return &fault{kind: "undeclared-variable", classes: []string{model.EUnboundVar}}
			}
		case 9: // unknown function
			pos := r.Intn(len(sc.Stmts) + 1)
			call := &gen.Call{Name: r.Pick("foo", "set_meta", "balance", "meta"), Args: []gen.Expr{gen.N("1")}}
			sc.Stmts = append(sc.Stmts[:pos], append([]gen.Stmt{call}, sc.Stmts[pos:]...)...)
			cs.Tune = append(cs.Tune, nil)
			return &fault{kind: "unknown-function", classes: []string{model.EUnboundFn}}
		case 10: // arity
			pos := r.Intn(len(sc.Stmts) + 1)
			var call *gen.Call
			switch r.Intn(4) {
			case 0:
				call = &gen.Call{Name: "set_tx_meta", Args: []gen.Expr{gen.S("k")}}
			case 1:
				call = &gen.Call{Name: "set_tx_meta", Args: []gen.Expr{gen.S("k"), gen.N("1"), gen.N("2")}}
			case 2:
				call = &gen.Call{Name: "set_account_meta", Args: []gen.Expr{gen.A("a"), gen.S("k")}}
			default:
				call = &gen.Call{Name: "set_tx_meta"}
			}
			sc.Stmts = append(sc.Stmts[:pos], append([]gen.Stmt{call}, sc.Stmts[pos:]...)...)
			cs.Tune = append(cs.Tune, nil)
			return &fault{kind: "arity", classes: []string{model.EArity}}
		case 11: // missing metadata
			sc.Vars = append(sc.Vars, &gen.VarDecl{Type: "string", Name: "mm", Origin: &gen.Call{Name: "meta", Args: []gen.Expr{gen.A("nobody"), gen.S("nokey")}}})
			return &fault{kind: "missing-metadata", classes: []string{model.EMetaNotFound}}
		case 12: // negative balance read
			sc.Vars = append(sc.Vars, &gen.VarDecl{Type: "monetary", Name: "nb", Origin: &gen.Call{Name: "balance", Args: []gen.Expr{gen.A("neg"), gen.As("USD")}}})
			cs.Balances["neg"] = map[string]*bigInt{"USD": bigS("-3")}
			return &fault{kind: "negative-balance", classes: []string{model.ENegativeBalance}}
		case 13: // overdraft() without the flag
			if cs.Flags["experimental-overdraft-function"] {
				continue
			}
			sc.Vars = append(sc.Vars, &gen.VarDecl{Type: "monetary", Name: "od", Origin: &gen.Call{Name: "overdraft", Args: []gen.Expr{gen.A("a"), gen.As("USD")}}})
			return &fault{kind: "experimental", classes: []string{model.EExperimental}}
		case 14: // broken allotment sum / zero denominator in a destination
			for _, s := range sends {
				if d, ok := s.Dst.(*gen.DstAllot); ok {
					hasRem := false
					for _, it := range d.Items {
						if _, ok := it.A.(*gen.AllotRemaining); ok {
							hasRem = true
						}
					}
					for _, it := range d.Items {
						if l, ok := it.A.(*gen.AllotLit); ok {
							if r.Bool() {
								l.Lit = &gen.Ratio{Text: "7/0"}
								return &fault{kind: "zero-denominator", classes: []string{model.EBadPortion, model.EAllotmentSum}}
							}
							if hasRem {
								continue // `remaining` absorbs any sum below one
							}
							l.Lit = &gen.Ratio{Text: "41/97"}
							return &fault{kind: "allotment-sum", classes: []string{model.EAllotmentSum}, mayBeUnreached: false}
						}
					}
				}
			}
		case 15: // wrong-type argument of a metadata function
			pos := r.Intn(len(sc.Stmts) + 1)
			var call *gen.Call
			if r.Bool() {
				call = &gen.Call{Name: "set_tx_meta", Args: []gen.Expr{gen.N("1"), gen.N("2")}}
			} else {
				call = &gen.Call{Name: "set_account_meta", Args: []gen.Expr{gen.S("a"), gen.S("k"), gen.N("2")}}
			}
			sc.Stmts = append(sc.Stmts[:pos], append([]gen.Stmt{call}, sc.Stmts[pos:]...)...)
			cs.Tune = append(cs.Tune, nil)
			return &fault{kind: "type:call-argument", classes: []string{model.EType}}
		}
	}
	return nil
}

// r2expr returns an expression whose type is NOT want.
func r2expr(r *rng.R, want string) gen.Expr {
	for {
		var e gen.Expr
		var t string
		switch r.Intn(6) {
		case 0:
			e, t = gen.N("5"), "number"
		case 1:
			e, t = gen.S("str"), "string"
		case 2:
			e, t = gen.As("USD"), "asset"
		case 3:
			e, t = gen.A("acc"), "account"
		case 4:
			e, t = gen.M("USD", "3"), "monetary"
		default:
			e, t = &gen.Ratio{Text: "1/2"}, "portion"
		}
		if t != want {
			return e
		}
	}
}

func in(xs []string, x string) bool {
	for _, y := range xs {
		if x == y {
			return true
		}
	}
	return false
}

func runC12(c *fw.Ctx) {
	cfg := with(func(l *gen.LCfg) {
		l.PWorld, l.PUnbounded, l.PBig = 35, 30, 10
		l.PVarAcct, l.PVarAmt, l.PPortionVar = 40, 40, 40
		l.MaxStmts = 3
		l.PDstAllot, l.PSrcAllot = 30, 20
	})
	// ---- (a) planted faults ----
	n := c.N(100000, 2500000)
	for i := 0; i < n; i++ {
		id := "plant/" + itoa(i)
		if !c.Want(i, id) {
			continue
		}
		// control: must succeed
		control := genCase(c.Rng(id), cfg)
		ce, ok := run(c, control)
		if !ok || !ce.out.OK() {
			c.Count("control_not_succeeding_skipped", 1)
			continue
		}
		cs := genCase(c.Rng(id), cfg) // identical twin
		fr := c.Rng(id + "/fault")
		f := plant(fr, cs)
		if f == nil {
			c.Count("no_fault_plantable_skipped", 1)
			continue
		}
		if i%5 == 4 {
			// a second, independent fault: the error may name either cause
			if f2 := plant(fr, cs); f2 != nil {
				f = &fault{kind: f.kind + " + " + f2.kind, classes: append(append([]string{}, f.classes...), f2.classes...),
					mayBeUnreached: f.mayBeUnreached && f2.mayBeUnreached, anyOutcome: f.anyOutcome || f2.anyOutcome}
				c.Count("double_faults", 1)
			}
		}
		e, ok := run(c, cs)
		input := func() any {
			d := cs.Describe()
			d["planted_fault"], d["control_script"] = f.kind, ce.text
			return d
		}
		if !ok {
			if e.parse.Panicked {
				c.Violation("panic:parse:"+e.parse.Frame, "parsing panics: "+e.parse.PanicVal, input())
				return
			}
			c.Count("faulted_script_rejected_by_parser", 1)
			continue
		}
		if e.out.Panicked {
			c.Violation("panic:"+e.out.Frame, fmt.Sprintf("fault %q: panic %s", f.kind, e.out.PanicVal), input())
			return
		}
		if e.out.NonZeroOnError {
			c.Violation("result-with-error", fmt.Sprintf("fault %q: a non-empty result was returned together with error %v", f.kind, e.out.Err), input())
			return
		}
		switch {
		case f.anyOutcome:
			if e.out.Err != nil && strings.HasPrefix(e.out.Class, "other:") {
				c.Violation("untyped-error", fmt.Sprintf("fault %q: error of unknown class %s: %v", f.kind, e.out.Class, e.out.Err), input())
				return
			}
			c.Count("crash_only_faults_checked", 1)
			c.Distinct(f.kind + "|" + e.out.Class)
		case e.out.Err != nil && in(f.classes, e.out.Class):
			c.Count("planted_faults_checked", 1)
			c.Count("fault_"+strings.SplitN(f.kind, ":", 2)[0], 1)
			c.Distinct(f.kind + "|" + e.out.Class)
		case f.mayBeUnreached && e.out.Summary() == ce.out.Summary():
			c.Count("planted_faults_unreached", 1)
		default:
			c.Violation("wrong-outcome:"+strings.SplitN(f.kind, ":", 2)[0], fmt.Sprintf("fault %q: expected an error of class %v, got %s (%v)", f.kind, f.classes, e.out.Summary(), e.out.Err), input())
			return
		}
		if c.WantSample() && i%29 == 7 {
			c.Sample(map[string]any{"case": id, "input": input(), "outcome": e.out.Summary(), "error": fmt.Sprint(e.out.Err)})
		}
	}
	// ---- (a') a percentage above 100 with every number of decimals 0..70, as a variable and in metadata ----
	for d := 0; d <= 70; d++ {
		id := "portion-decimals/" + itoa(d)
		if !c.Want(900_000_0+d, id) {
			continue
		}
		text := "150"
		if d > 0 {
			text += "." + strings.Repeat("0", d-1) + "1"
		}
		text += "%"
		for variant := 0; variant < 2; variant++ {
			sc := &gen.Script{Vars: []*gen.VarDecl{{Type: "portion", Name: "p"}}, Stmts: []gen.Stmt{
				&gen.Send{Sent: &gen.SentValue{E: gen.M("USD", "10")}, Src: gen.SA("world"), Dst: &gen.DstAllot{Items: []*gen.DstAllotItem{{A: &gen.AllotVar{V: gen.V("p")}, To: gen.To(gen.DA("x"))}, {A: &gen.AllotRemaining{}, To: &gen.KOD{Kept: true}}}}}}}
			cs := mkCase(sc, map[string]string{"p": text}, nil)
			if variant == 1 {
				sc.Vars[0].Origin = &gen.Call{Name: "meta", Args: []gen.Expr{gen.A("cfg"), gen.S("p")}}
				cs.Meta = map[string]map[string]string{"cfg": {"p": text}}
				delete(cs.Vars, "p")
			}
			e, ok := run(c, cs)
			if !ok {
				continue
			}
			c.Count("over_100_percent_texts", 1)
			if e.out.Panicked {
				c.Violation("panic:"+e.out.Frame, fmt.Sprintf("portion text %q: panic %s", text, e.out.PanicVal), e.input())
				return
			}
			if e.out.OK() || e.out.Class != model.EBadPortion {
				c.Violation("wrong-outcome:portion-above-one", fmt.Sprintf("portion text %q (above 100%%): expected an invalid-portion error, got %s", text, e.out.Summary()), e.input())
				return
			}
		}
	}
	// ---- (a'') a portion literal with a zero denominator — every spelling, zero numerators included — at every position a portion can stand ----
	zeroDen := []string{"0/0", "1/0", "7/0", "00/0", "0/00", "0 / 0", "0/ 0", "0 /0", "000/000", "12/00", "100000000000000000000/0", "0/0000000000000000000000"}
	for ti, text := range zeroDen {
		for pos := 0; pos < 6; pos++ {
			id := "zero-denominator/" + itoa(ti) + "/" + itoa(pos)
			if !c.Want(950_000_0+ti*10+pos, id) {
				continue
			}
			lit := func() gen.Allot { return &gen.AllotLit{Lit: &gen.Ratio{Text: text}} }
			half := func() gen.Allot { return &gen.AllotLit{Lit: &gen.Ratio{Text: "1/2"}} }
			send := &gen.Send{Sent: &gen.SentValue{E: gen.M("USD", "10")}, Src: gen.SA("world"), Dst: gen.DA("x")}
			sc := &gen.Script{Stmts: []gen.Stmt{send}}
			classes := []string{model.EBadPortion}
			switch pos {
			case 0: // first destination share, next to `remaining`
				send.Dst = &gen.DstAllot{Items: []*gen.DstAllotItem{{A: lit(), To: gen.To(gen.DA("x"))}, {A: &gen.AllotRemaining{}, To: gen.To(gen.DA("y"))}}}
			case 1: // destination share without `remaining` (the sum is wrong as well)
				send.Dst = &gen.DstAllot{Items: []*gen.DstAllotItem{{A: lit(), To: gen.To(gen.DA("x"))}, {A: half(), To: gen.To(gen.DA("y"))}}}
				classes = append(classes, model.EAllotmentSum)
			case 2: // source share
				send.Src = &gen.SrcAllot{Items: []*gen.SrcAllotItem{{A: lit(), From: gen.SA("world")}, {A: &gen.AllotRemaining{}, From: gen.SA("world")}}}
			case 3: // a value of its own
				sc.Stmts = []gen.Stmt{&gen.Call{Name: "set_tx_meta", Args: []gen.Expr{gen.S("k"), &gen.Ratio{Text: text}}}, send}
			case 4: // after a valid share, `remaining kept` last
				send.Dst = &gen.DstAllot{Items: []*gen.DstAllotItem{{A: half(), To: gen.To(gen.DA("x"))}, {A: lit(), To: gen.To(gen.DA("y"))}, {A: &gen.AllotRemaining{}, To: gen.Kept()}}}
			case 5: // share of a nested allotment inside an ordered destination
				send.Dst = &gen.DstInorder{Clauses: []*gen.DstClause{{Cap: gen.M("USD", "4"), To: gen.To(&gen.DstAllot{Items: []*gen.DstAllotItem{{A: lit(), To: gen.To(gen.DA("x"))}, {A: &gen.AllotRemaining{}, To: gen.To(gen.DA("y"))}}})}}, Remaining: gen.To(gen.DA("z"))}
			}
			cs := mkCase(sc, nil, nil)
			e, ok := run(c, cs)
			if !ok {
				continue
			}
			c.Count("zero_denominator_literals", 1)
			if e.out.Panicked {
				c.Violation("panic:"+e.out.Frame, fmt.Sprintf("portion literal %q: panic %s", text, e.out.PanicVal), e.input())
				return
			}
			if e.out.OK() || !in(classes, e.out.Class) {
				c.Violation("wrong-outcome:zero-denominator", fmt.Sprintf("portion literal %q (position %d): expected an invalid-portion error, got %s", text, pos, e.out.Summary()), e.input())
				return
			}
		}
	}
	// ---- (b) store-fault enumeration ----
	scfg := with(func(l *gen.LCfg) { l.POriginVar, l.PAbsent, l.MaxStmts = 50, 5, 3 })
	n = c.N(20000, 400000)
	for i := 0; i < n; i++ {
		id := "storefault/" + itoa(i)
		if !c.Want(1_000_000_0+i, id) {
			continue
		}
		r := c.Rng(id)
		cs := genCase(r, scfg)
		if i%40 == 17 {
			// store calls that name hundreds or thousands of accounts
			cs = genCase(r, with(func(l *gen.LCfg) {
				l.Accounts = manyAccounts(1300)
				l.Assets = []string{"USD"}
				l.Ladder = true
				l.Depth, l.Fanout, l.MinStmts, l.MaxStmts, l.PLongSrc, l.PFunded, l.PRepeat, l.PVarAcct, l.PWorld = 1, 1300, 1, 2, 100, 95, 1, 1, 2
			}))
			c.Count("store_fault_scripts_with_long_sources", 1)
		}
		for k := r.Intn(4); k > 0; k-- {
			addMetaOrigin(cs, r.Intn(9))
		}
		txt := gen.PrintCanonical(cs.Script).Text
		po := real.Parse(txt)
		if po.Panicked || len(po.Errors) > 0 {
			c.Count("generated_script_parse_rejected", 1)
			continue
		}
		clean, _ := real.RunCase(po.Result, cs, real.Exact)
		c.Eval()
		// without any injected fault the error (if any) must name the actual cause: compared with
		// the reference semantics' verdict on the same inputs
		if mod := model.Run(cs.Script, real.ToInput(cs)); mod.Undetermined == "" && !clean.Panicked {
			got := clean.Class
			want := ""
			if mod.Fail != nil {
				want = mod.Fail.Kind
			}
			if got != want {
				c.Violation("wrong-cause:"+got, fmt.Sprintf("without any store fault the run gives %s (%v); the reference semantics says %q", clean.Summary(), clean.Err, want), cs.Describe())
				return
			}
			c.Count("fault_free_runs_agreeing_with_reference", 1)
		}
		N := len(clean.Calls)
		for k := 1; k <= N; k++ {
			st := real.NewStore(real.Exact, cs.Balances, cs.Meta)
			st.FailAt = k
			st.FailShape = k + i
			st.FailMsg = fmt.Sprintf("injected-store-failure-%s-%d", strings.ReplaceAll(id, "/", "-"), k)
			if (k+i)%3 == 0 {
				// what real stores say: SQL fragments, encoded URLs
				st.FailMsg += " (LIKE 'users:%' 100%s %d%% postgres://u:p%40host)"
			}
			ctx := context.Background()
			if (k+i)%4 == 1 {
				// the caller's context is already done; the store fails for a reason of its own
				cctx, cancel := context.WithCancel(ctx)
				cancel()
				ctx = cctx
				c.Count("store_faults_under_a_cancelled_context", 1)
			}
			o := real.RunCtx(ctx, po.Result, cs.Vars, real.FlagsOf(cs), st)
			c.Eval()
			input := func() any {
				d := cs.Describe()
				d["failing_store_call"], d["store_calls_fault_free"], d["injected_message"] = k, renderCalls(clean.Calls), st.FailMsg
				return d
			}
			kind := clean.Calls[k-1].Kind
			if o.Panicked {
				c.Violation("panic:"+o.Frame, fmt.Sprintf("store failure at call %d: panic %s", k, o.PanicVal), input())
				return
			}
			if o.Err == nil {
				c.Violation("store-failure-swallowed", fmt.Sprintf("store call %d (%s) failed but the run returned a result: %s", k, kind, o.Summary()), input())
				return
			}
			if o.NonZeroOnError {
				c.Violation("result-with-error", "a non-empty result was returned together with the store error", input())
				return
			}
			if !strings.Contains(o.Err.Error(), st.FailMsg) {
				c.Violation("store-message-lost", fmt.Sprintf("store call %d (%s) failed with %q but the run failed with %q", k, kind, st.FailMsg, o.Err.Error()), input())
				return
			}
			wantClass := model.EStoreBalances
			if kind == "metadata" {
				wantClass = model.EStoreMeta
			}
			if o.Class != wantClass {
				c.Violation("store-failure-class", fmt.Sprintf("store call %d (%s) failed; error class %s", k, kind, o.Class), input())
				return
			}
			c.Count("store_faults_enumerated", 1)
			c.Count("store_faults_on_"+map[string]string{"balances": "balance", "metadata": "metadata"}[kind]+"_calls", 1)
			c.Distinct(fmt.Sprintf("sf|%s|%d/%d|%s", shapeKey(cs.Script), k, N, kind))
		}
	}
	// ---- (c) ill-typed scripts: crash and atomicity only ----
	n = c.N(60000, 1500000)
	for i := 0; i < n; i++ {
		id := "illtyped/" + itoa(i)
		if !c.Want(2_000_000_0+i, id) {
			continue
		}
		r := c.Rng(id)
		sc := gen.GenSyn(r, gen.SynCfg{Depth: 2 + r.Intn(2), MaxStmts: 3, Executable: true})
		cs := mkCase(sc, nil, nil)
		for _, d := range sc.Vars {
			if d.Origin == nil {
				cs.Vars[d.Name] = hostileOrGood(r, d.Type)
			}
		}
		for _, a := range []string{"a", "b", "world", "acc"} {
			cs.Balances[a] = map[string]*bigInt{"USD": gen.Balance(r, 10, 20), "EUR/2": gen.Balance(r, 10, 20)}
		}
		cs.Meta["a"] = map[string]string{"k": hostileOrGood(r, r.Pick("number", "monetary", "portion", "account", "string"))}
		if r.Bool() {
			cs.Flags["experimental-overdraft-function"] = true
		}
		e, ok := run(c, cs)
		if !ok {
			continue
		}
		c.Count("illtyped_runs", 1)
		if e.out.Panicked {
			c.Violation("panic:"+e.out.Frame, "panic: "+e.out.PanicVal, e.input())
			return
		}
		if e.out.NonZeroOnError {
			c.Violation("result-with-error", fmt.Sprintf("a non-empty result was returned together with error %v", e.out.Err), e.input())
			return
		}
		if e.out.Err != nil {
			c.Count("illtyped_error_"+e.out.Class, 1)
			if strings.HasPrefix(e.out.Class, "other:") {
				c.Violation("untyped-error", fmt.Sprintf("error of unknown class %s: %v", e.out.Class, e.out.Err), e.input())
				return
			}
			c.Distinct("ill|" + e.out.Class + "|" + shapeKey(sc))
		} else {
			c.Count("illtyped_runs_succeeding", 1)
		}
	}
}

func hostileOrGood(r *rng.R, typ string) string {
	if r.Chance(1, 3) {
		if hs := hostileByType[typ]; len(hs) > 0 && r.Bool() {
			return hs[r.Intn(len(hs))].text
		}
		if as := arguableByType[typ]; len(as) > 0 {
			return as[r.Intn(len(as))]
		}
	}
	switch typ {
	case "number":
		return gen.SmallOrBig(r, 20).String()
	case "monetary":
		return r.Pick("USD", "EUR/2") + " " + gen.SmallOrBig(r, 20).String()
	case "portion":
		return r.Pick("1/2", "50%", "0/1", "1/1", "12.5%", "1/3")
	case "account":
		return r.Pick("a", "b", "world", "acc")
	case "asset":
		return r.Pick("USD", "EUR/2")
	default:
		return r.Pick("k", "", "x y")
	}
}
