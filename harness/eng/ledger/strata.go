package main

import (
	"github.com/formancehq/numscript/verifharness/gen"
)

// stratum is a named generator configuration with a share of the workload.
type stratum struct {
	name   string
	cfg    gen.LCfg
	weight int // relative number of cases
}

func base() gen.LCfg {
	c := gen.DefaultLCfg()
	c.BigLiterals = true
	return c
}

func with(f func(c *gen.LCfg)) gen.LCfg {
	c := base()
	f(&c)
	return c
}

// ledgerStrata is the common stratification of the ledger workloads (DESIGN §5, C01–C05).
func ledgerStrata() []stratum {
	return []stratum{
		{"general", base(), 4},
		{"repeat", with(func(c *gen.LCfg) {
			c.Accounts = []string{"a", "b"}
			c.Assets = []string{"USD"}
			c.PRepeat, c.PSrcSeq, c.POverdraft, c.PUnbounded, c.PWorld = 80, 60, 35, 10, 3
			c.Depth, c.MaxStmts = 2, 2
		}), 3},
		{"negbal", with(func(c *gen.LCfg) {
			c.Assets = []string{"USD"}
			c.PNegBal, c.PSrcSeq, c.PWorld, c.PUnbounded = 55, 50, 4, 8
			c.MaxStmts = 3
		}), 3},
		{"caps", with(func(c *gen.LCfg) {
			c.Assets = []string{"USD", "COIN"}
			c.PSrcCap, c.PNegCap, c.PDstSeq, c.PWorld = 45, 30, 55, 15
		}), 3},
		{"kept", with(func(c *gen.LCfg) {
			c.Assets = []string{"USD"}
			c.PKept, c.PDstSeq, c.PDstAllot, c.PSrcSeq, c.PWorld = 50, 50, 25, 55, 5
			c.MaxStmts = 2
		}), 3},
		{"chains", with(func(c *gen.LCfg) {
			c.Accounts = []string{"a", "b", "c"}
			c.Assets = []string{"USD"}
			c.MinStmts, c.MaxStmts, c.Depth = 3, 5, 2
			c.PWorld, c.PUnbounded, c.PSave = 4, 5, 20
			c.DestWorld = false
		}), 3},
		{"save", with(func(c *gen.LCfg) {
			c.Accounts = []string{"a", "b"}
			c.Assets = []string{"USD", "COIN"}
			c.PSave, c.PWorld, c.PUnbounded, c.PNegBal = 40, 3, 5, 20
			c.MinStmts, c.MaxStmts, c.Depth = 2, 5, 1
		}), 3},
		{"sendall", with(func(c *gen.LCfg) {
			c.Assets = []string{"USD"}
			c.PSendAll, c.PSrcSeq, c.PSrcCap, c.PNegBal = 70, 45, 25, 20
		}), 3},
		{"allot", with(func(c *gen.LCfg) {
			c.Assets = []string{"USD"}
			c.PSrcAllot, c.PDstAllot, c.PWorld, c.PUnbounded = 40, 45, 25, 30
		}), 3},
		{"big", with(func(c *gen.LCfg) {
			c.PBig, c.PVarAmt = 45, 40
		}), 2},
		{"bigvars", with(func(c *gen.LCfg) {
			c.Accounts = []string{"a", "b"}
			c.Assets = []string{"USD"}
			c.PBig, c.PVarAmt, c.PDstSeq, c.PSrcSeq, c.PKept, c.PWorld = 70, 70, 60, 40, 10, 20
			c.MinStmts, c.MaxStmts, c.Depth = 2, 4, 2
		}), 3},
		{"vars", with(func(c *gen.LCfg) {
			c.PVarAcct, c.PVarAmt, c.PInfix, c.PPortionVar, c.POriginVar = 70, 60, 35, 50, 15
			// asset names of every shape the grammar allows, mostly given through variables
			c.Assets = []string{"USD", "EUR/2", "COIN", "COIN2", "X1/12", "B2B"}
		}), 2},
		{"deep", with(func(c *gen.LCfg) {
			c.Depth, c.Fanout, c.MaxStmts = 4, 4, 6
		}), 1},
		{"wide", with(func(c *gen.LCfg) {
			c.Accounts = []string{"a", "b", "c", "d", "e", "f", "g", "h", "i", "j"}
			c.Assets = []string{"USD"}
			c.Depth, c.Fanout, c.MinStmts, c.MaxStmts = 2, 18, 1, 12
			c.PSrcSeq, c.PDstSeq, c.PSrcAllot, c.PDstAllot = 45, 40, 20, 25
		}), 1},
		{"deepest", with(func(c *gen.LCfg) {
			c.Assets = []string{"USD"}
			c.Depth, c.Fanout, c.MaxStmts = 7, 2, 2
			c.PSrcSeq, c.PSrcCap, c.PDstSeq, c.PDstAllot = 45, 35, 45, 35
		}), 1},
		{"wide40", with(func(c *gen.LCfg) {
			// long flat lists: more than 32 funded draws in one statement, accounts repeated
			c.Accounts = manyAccountsL(60)
			c.Assets = []string{"USD"}
			c.PLongSrc, c.PFunded = 60, 92
			c.Depth, c.Fanout, c.MinStmts, c.MaxStmts = 1, 60, 1, 4
			c.PSrcSeq, c.PDstSeq, c.PSrcCap, c.PSrcAllot, c.PDstAllot, c.PRepeat, c.PWorld, c.PAbsent, c.PSave = 70, 40, 10, 5, 10, 25, 2, 3, 20
		}), 2},
		{"assets-origins", with(func(c *gen.LCfg) {
			// two assets on the same few accounts, amounts read from the store (balance / overdraft
			// origins) before the statements run, negative balances under bounded overdrafts
			c.Accounts = []string{"a", "b"}
			c.Assets = []string{"USD", "EUR/2"}
			c.MultiAsset = true
			c.POriginVar, c.PNegBal, c.POverdraft, c.PUnbounded, c.PWorld, c.PAbsent = 40, 35, 45, 5, 5, 3
			c.MinStmts, c.MaxStmts, c.Depth, c.PSrcSeq = 2, 5, 1, 40
		}), 2},
		{"wide150", with(func(c *gen.LCfg) {
			// more than 128 funded accounts drawn by one statement
			c.Accounts = manyAccountsL(170)
			c.Assets = []string{"USD"}
			c.PLongSrc, c.PFunded, c.PRepeat = 100, 96, 4
			c.Depth, c.Fanout, c.MinStmts, c.MaxStmts, c.PSave, c.PMetaStmt, c.PSendAll, c.PWorld = 1, 170, 1, 3, 5, 0, 5, 2
		}), 1},
		{"ladder", with(func(c *gen.LCfg) {
			// list lengths next to powers of two, up to 1025 sources / 513 destination clauses
			c.Accounts = manyAccountsL(1100)
			c.Assets = []string{"USD"}
			c.Ladder = true
			c.PLongSrc, c.PLongDst, c.PFunded, c.PRepeat, c.PNegBal, c.POverdraft = 70, 30, 72, 1, 60, 60
			c.Depth, c.Fanout, c.MinStmts, c.MaxStmts, c.PSave, c.PMetaStmt, c.PSendAll, c.PWorld, c.PVarAcct, c.PVarAmt = 1, 1100, 1, 2, 5, 0, 10, 2, 1, 5
		}), 1},
		{"ladder-debt", with(func(c *gen.LCfg) {
			// the same ladder over accounts that are all in debt, every entry with a bounded overdraft
			c.Accounts = manyAccountsL(1100)
			c.Assets = []string{"USD"}
			c.Ladder = true
			c.PLongSrc, c.PFunded, c.PRepeat, c.PNegBal, c.POverdraft, c.PAbsent = 90, 0, 1, 100, 300, 2
			c.Depth, c.Fanout, c.MinStmts, c.MaxStmts, c.PSave, c.PMetaStmt, c.PSendAll, c.PWorld, c.PVarAcct, c.PVarAmt, c.PBig = 1, 1100, 1, 2, 3, 0, 10, 2, 1, 5, 0
		}), 1},
		{"concat", with(func(c *gen.LCfg) {
			// account and asset names whose concatenations coincide: userA + USD == user + AUSD
			c.Accounts = []string{"user", "userA", "a", "aB", "ab", "abT", "a:b"}
			c.Assets = []string{"USD", "AUSD", "BTC", "TC", "C", "b:USD"} // the last one only exists as a variable's value
			c.MultiAsset = true
			c.MinStmts, c.MaxStmts, c.Depth, c.PSrcSeq, c.PWorld, c.PAbsent, c.PFunded = 2, 5, 1, 45, 4, 3, 60
		}), 1},
		{"longsrc", with(func(c *gen.LCfg) {
			// several statements in a row that each draw from a dozen or more funded accounts
			c.Accounts = manyAccountsL(60)
			c.Assets = []string{"USD"}
			c.Depth, c.Fanout, c.MinStmts, c.MaxStmts = 1, 30, 2, 4
			c.PLongSrc, c.PRepeat, c.PWorld, c.PUnbounded, c.PBig, c.PAbsent, c.PNegBal, c.PSave = 80, 10, 3, 3, 0, 5, 0, 10
			c.PFunded, c.PSendAll, c.PMetaStmt, c.Fanout = 85, 6, 3, 40
		}), 2},
		{"colons", with(func(c *gen.LCfg) {
			// segmented names whose concatenations collide: x:y + z  ==  x + y:z
			c.Accounts = []string{"x:y", "x", "y:z", "z", "y", "users:001:wallet", "main", "x-y", "y-z", "users-eu", "users", "eu-main", "a_b", "b_c", "a", "c"}
			c.Assets = []string{"USD"}
			c.PSrcSeq, c.PDstSeq, c.PWorld, c.Depth, c.PAligned = 60, 60, 3, 2, 40
			c.DestWorld = false
		}), 2},
		{"names", with(func(c *gen.LCfg) {
			c.Accounts = []string{"users:001", "a-b_c:D", "worlds", "my:world", "world:a", "world:treasury", "World", "WORLD", "kept", "0", "A", "x:y:z:w", "world_", "a"}
			c.Assets = []string{"USD/2", "A/1/2", "X9", "U/", "EUR/2"}
			c.PVarAcct, c.PWorld = 35, 15
		}), 2},
	}
}

func manyAccountsL(n int) []string {
	out := make([]string, n)
	for i := range out {
		out[i] = "acc:" + itoa(i)
	}
	return out
}

// forEachCase iterates the stratified random workload: total cases split by weight.
func forEachCase(strata []stratum, total int, f func(idx int, id string, st *stratum, i int)) {
	w := 0
	for _, s := range strata {
		w += s.weight
	}
	idx := 0
	for si := range strata {
		s := &strata[si]
		n := total * s.weight / w
		if n < 1 {
			n = 1
		}
		for i := 0; i < n; i++ {
			f(idx, s.name+"/"+itoa(i), s, i)
			idx++
		}
	}
}

func itoa(i int) string {
	if i == 0 {
		return "0"
	}
	var b [20]byte
	p := len(b)
	for i > 0 {
		p--
		b[p] = byte('0' + i%10)
		i /= 10
	}
	return string(b[p:])
}
