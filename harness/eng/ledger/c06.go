package main

import (
	"fmt"
	"math/big"
	"strings"

	"github.com/formancehq/numscript/verifharness/fw"
	"github.com/formancehq/numscript/verifharness/gen"
	"github.com/formancehq/numscript/verifharness/model"
	"github.com/formancehq/numscript/verifharness/real"
	"github.com/formancehq/numscript/verifharness/rng"
)

func propC06() *fw.Prop {
	return &fw.Prop{
		ID: "C06", Level: "exploration",
		Rule:        "single-allotment scripts run against @world (destination side: credits per clause account; source side: unbounded-overdraft sub-sources so each share is a debit). Exhaustive: every composition of every denominator ≤ 12 (thorough ≤ 24) into 2–4 ratio clauses, optionally with `remaining` replacing the last or a non-last clause, × every total 0..60 (thorough 0..200); random: totals up to 10^40, percentages with decimals, portion variables, sums ≠ 1. Oracle = exact rational arithmetic: Σ shares = total, ⌊p·t⌋ ≤ share ≤ ⌊p·t⌋+1, the +1's form a prefix of the clause list. Distinct = (side, portion vector, position of remaining, total mod denominator). Added in later rounds: percentages with every number of decimals 1..40; terms and totals just below 2^16..2^64; portions whose terms do not fit a machine word, used in two statements; one parse result run again with other portion values (swapped, or breaking the sum); allotments that do not add up to one nested under a clause of an outer allotment, for every share of that clause including zero.",
		Assumptions: []string{trustedBase},
		Require:     []string{"exhaustive_spaces_completed", "shares_checked", "rejected_bad_sum", "cases_with_leftover", "second_use_of_the_same_portions"},
		Run:         runC06,
	}
}

// allotScript builds the one-statement script for a list of allotment heads.
// side 0: destination allotment fed by @world; side 1: source allotment of unbounded accounts.
func allotScript(heads []gen.Allot, side int, vars []*gen.VarDecl) *gen.Script {
	sc := &gen.Script{Vars: append([]*gen.VarDecl{{Type: "monetary", Name: "n"}}, vars...)}
	if side == 0 {
		d := &gen.DstAllot{}
		for i, h := range heads {
			d.Items = append(d.Items, &gen.DstAllotItem{A: h, To: gen.To(gen.DA(fmt.Sprintf("d%d", i)))})
		}
		sc.Stmts = []gen.Stmt{&gen.Send{Sent: &gen.SentValue{E: gen.V("n")}, Src: gen.SA("world"), Dst: d}}
	} else {
		s := &gen.SrcAllot{}
		for i, h := range heads {
			s.Items = append(s.Items, &gen.SrcAllotItem{A: h, From: &gen.SrcOverdraft{Addr: gen.A(fmt.Sprintf("d%d", i))}})
		}
		sc.Stmts = []gen.Stmt{&gen.Send{Sent: &gen.SentValue{E: gen.V("n")}, Src: s, Dst: gen.DA("z")}}
	}
	return sc
}

// checkShares asserts the three clauses of the property on observed shares.
func checkShares(ps []*big.Rat, total *big.Int, shares []*big.Int) string {
	sum := new(big.Int)
	for _, s := range shares {
		sum.Add(sum, s)
	}
	if sum.Cmp(total) != 0 {
		return fmt.Sprintf("shares add up to %s, not %s", sum, total)
	}
	seenPlain := false
	for i, p := range ps {
		prod := new(big.Rat).Mul(p, new(big.Rat).SetInt(total))
		fl := new(big.Int).Div(prod.Num(), prod.Denom()) // p ≥ 0 here
		d := new(big.Int).Sub(shares[i], fl)
		switch {
		case d.Sign() == 0:
			seenPlain = true
		case d.Cmp(big.NewInt(1)) == 0:
			if seenPlain {
				return fmt.Sprintf("clause %d received a leftover unit although an earlier clause did not", i)
			}
		default:
			return fmt.Sprintf("clause %d received %s, floor share is %s", i, shares[i], fl)
		}
	}
	return ""
}

func observeShares(e *exec, k, side int) []*big.Int { return observeSharesP(e, k, side, "d") }

func observeSharesP(e *exec, k, side int, prefix string) []*big.Int {
	out := make([]*big.Int, k)
	for i := range out {
		out[i] = new(big.Int)
	}
	for _, p := range e.out.Postings {
		name := p.Dst
		if side == 1 {
			name = p.Src
		}
		var idx int
		if _, err := fmt.Sscanf(name, prefix+"%d", &idx); err == nil && idx < k && strings.HasPrefix(name, prefix) {
			out[idx].Add(out[idx], p.Amt)
		}
	}
	return out
}

// copyHeads gives fresh head nodes naming the same literals / variables.
func copyHeads(hs []gen.Allot) []gen.Allot {
	out := make([]gen.Allot, len(hs))
	for i, h := range hs {
		switch h := h.(type) {
		case *gen.AllotLit:
			out[i] = &gen.AllotLit{Lit: gen.CopyExpr(h.Lit)}
		case *gen.AllotVar:
			out[i] = &gen.AllotVar{V: gen.V(h.V.Name)}
		default:
			out[i] = &gen.AllotRemaining{}
		}
	}
	return out
}

// secondUse appends a second send that uses the same portion heads (same variables) again, on
// the other side and on other accounts ("e<i>"), with its own amount variable $n2.
func secondUse(sc *gen.Script, heads []gen.Allot, side int) {
	sc.Vars = append(sc.Vars, &gen.VarDecl{Type: "monetary", Name: "n2"})
	h2 := copyHeads(heads)
	if side == 0 {
		d := &gen.DstAllot{}
		for i, h := range h2 {
			d.Items = append(d.Items, &gen.DstAllotItem{A: h, To: gen.To(gen.DA(fmt.Sprintf("e%d", i)))})
		}
		sc.Stmts = append(sc.Stmts, &gen.Send{Sent: &gen.SentValue{E: gen.V("n2")}, Src: gen.SA("world"), Dst: d})
	} else {
		s := &gen.SrcAllot{}
		for i, h := range h2 {
			s.Items = append(s.Items, &gen.SrcAllotItem{A: h, From: &gen.SrcOverdraft{Addr: gen.A(fmt.Sprintf("e%d", i))}})
		}
		sc.Stmts = append(sc.Stmts, &gen.Send{Sent: &gen.SentValue{E: gen.V("n2")}, Src: s, Dst: gen.DA("z")})
	}
}

func runC06(c *fw.Ctx) {
	maxDen, maxTotal := 12, 60
	if !c.Quick {
		maxDen, maxTotal = 24, 200
	}
	one := big.NewRat(1, 1)
	idx := 0
	// ---- exhaustive ----
	for den := 1; den <= maxDen; den++ {
		for k := 2; k <= 4; k++ {
			comps := compositions(den, k)
			for ci, parts := range comps {
				// variants: 0 = all literal; 1 = last clause is `remaining`; 2 = first clause is `remaining`
				for variant := 0; variant < 3; variant++ {
					for side := 0; side < 2; side++ {
						idx++
						id := fmt.Sprintf("exh/%d/%d/%d/%d/%d", den, k, ci, variant, side)
						if !c.Want(idx, id) {
							continue
						}
						heads := make([]gen.Allot, k)
						ps := make([]*big.Rat, k)
						for i, p := range parts {
							ps[i] = big.NewRat(int64(p), int64(den))
							heads[i] = &gen.AllotLit{Lit: &gen.Ratio{Text: fmt.Sprintf("%d/%d", p, den)}}
						}
						switch variant {
						case 1:
							heads[k-1] = &gen.AllotRemaining{}
						case 2:
							heads[0] = &gen.AllotRemaining{}
						}
						sc := allotScript(heads, side, nil)
						txt := gen.PrintCanonical(sc).Text
						po := real.Parse(txt)
						if po.Panicked || len(po.Errors) > 0 {
							c.Count("generated_script_parse_rejected", 1)
							continue
						}
						for t := 0; t <= maxTotal; t++ {
							cs := mkCase(sc, map[string]string{"n": fmt.Sprintf("USD %d", t)}, nil)
							e := runParsed(c, &po, txt, cs)
							if !e.out.OK() {
								c.Violation("allot-failed", fmt.Sprintf("a valid allotment failed: %s", e.out.Summary()), e.input())
								return
							}
							total := big.NewInt(int64(t))
							shares := observeShares(e, k, side)
							c.Count("shares_checked", k)
							if msg := checkShares(ps, total, shares); msg != "" {
								c.Violation("shares", fmt.Sprintf("%s; portions %v total %d shares %v", msg, ps, t, shares), e.input())
								return
							}
							want := model.Allot(total, ps)
							for i := range want {
								if want[i].Cmp(shares[i]) != 0 {
									c.Violation("shares-vs-reference", fmt.Sprintf("shares %v, reference %v", shares, want), e.input())
									return
								}
							}
							left := false
							for i, p := range ps {
								prod := new(big.Rat).Mul(p, new(big.Rat).SetInt(total))
								if !prod.IsInt() && shares[i].Sign() >= 0 {
									left = true
								}
							}
							if left {
								c.Count("cases_with_leftover", 1)
								c.Distinct(fmt.Sprintf("%d|%v|%d|%d|%d", side, parts, den, variant, t%den))
							}
						}
					}
				}
			}
		}
	}
	if c.Want(0, "exh/done") {
		c.Count("exhaustive_spaces_completed", 1)
	}
	// ---- portions whose terms do not fit a machine word (ratios beyond 2^64, percentages with
	// more than 19 significant digits), as literals and as variables, used in two statements ----
	for i := 0; i < c.N(800, 30000); i++ {
		id := "wide-terms/" + itoa(i)
		if !c.Want(43_000_000+i, id) {
			continue
		}
		r := c.Rng(id)
		d := new(big.Int).Add(r.Big(r.Range(65, 200)), new(big.Int).Lsh(big.NewInt(1), 64))
		n := new(big.Int).Mod(r.Big(210), new(big.Int).Add(d, big.NewInt(1)))
		p := new(big.Rat).SetFrac(n, d)
		text := n.String() + "/" + d.String()
		if r.Chance(1, 3) {
			// a percentage with 20..40 significant decimals
			dec := r.Range(20, 40)
			digits := randDigits(r, dec)
			text = fmt.Sprintf("%d.%s%%", r.Intn(100), digits)
			p, _ = model.ParsePercentText(text)
		}
		ps := []*big.Rat{p, new(big.Rat).Sub(big.NewRat(1, 1), p)}
		var head gen.Allot
		var vars []*gen.VarDecl
		vals := map[string]string{}
		if r.Chance(2, 3) {
			vars = []*gen.VarDecl{{Type: "portion", Name: "p0"}}
			vals["p0"] = text
			head = &gen.AllotVar{V: gen.V("p0")}
		} else if strings.HasSuffix(text, "%") {
			head = &gen.AllotLit{Lit: &gen.Percent{Text: text}}
		} else {
			head = &gen.AllotLit{Lit: &gen.Ratio{Text: text}}
		}
		heads := []gen.Allot{head, &gen.AllotRemaining{}}
		if r.Bool() {
			heads[0], heads[1] = heads[1], heads[0]
			ps[0], ps[1] = ps[1], ps[0]
		}
		side, side2 := r.Intn(2), r.Intn(2)
		sc := allotScript(heads, side, vars)
		secondUse(sc, heads, side2)
		total, total2 := gen.SmallOrBig(r, 40), gen.SmallOrBig(r, 40)
		vals["n"], vals["n2"] = "USD "+total.String(), "USD "+total2.String()
		cs := mkCase(sc, vals, nil)
		e, ok := run(c, cs)
		if !ok {
			continue
		}
		if e.out.Panicked {
			c.Violation("panic:"+e.out.Frame, "panic: "+e.out.PanicVal, e.input())
			return
		}
		if !e.out.OK() {
			c.Violation("allot-failed", fmt.Sprintf("a valid allotment (%s and remaining, used in two statements) failed: %s (%v)", text, e.out.Summary(), e.out.Err), e.input())
			return
		}
		c.Count("wide_term_portions", 1)
		c.Count("shares_checked", 4)
		if msg := checkShares(ps, total, observeShares(e, 2, side)); msg != "" {
			c.Violation("shares", fmt.Sprintf("%s; portions %v total %s", msg, ps, total), e.input())
			return
		}
		if msg := checkShares(ps, total2, observeSharesP(e, 2, side2, "e")); msg != "" {
			c.Violation("shares-second-use", fmt.Sprintf("second use of the same portions: %s; portions %v total %s", msg, ps, total2), e.input())
			return
		}
		c.Distinct(fmt.Sprintf("wide|%d|%d|%d|%v", side, side2, d.BitLen(), len(vars) > 0))
	}
	// ---- an allotment whose portions do not add up to one, nested in a clause of an outer
	// allotment: every clause of an allotment is distributed to, whatever its share (zero
	// portion, floor share of zero, nothing to split), so the inner one must be rejected ----
	{
		outers := []string{"0%", "0/1", "1/2", "1/3", "1/1", "100%", "0.000%", "$p"}
		inners := [][]string{{"1/2", "1/3"}, {"50%", "49%"}, {"1/1", "1/1"}, {"0/1"}, {"2/3", "2/3"}, {"99.999%"}}
		totals := []string{"0", "1", "2", "100", "18446744073709551616"}
		idx := 0
		for oi, outer := range outers {
			for ii, inner := range inners {
				for _, tot := range totals {
					for side := 0; side < 2; side++ {
						for pos := 0; pos < 2; pos++ {
							idx++
							id := fmt.Sprintf("nested-badsum/%d/%d/%s/%d/%d", oi, ii, tot, side, pos)
							if !c.Want(44_000_000+idx, id) {
								continue
							}
							var head gen.Allot
							var vars []*gen.VarDecl
							vals := map[string]string{"n": "USD " + tot}
							switch {
							case outer == "$p":
								vars = []*gen.VarDecl{{Type: "portion", Name: "p"}}
								vals["p"] = []string{"0%", "0/5", "1/7"}[(ii+side+pos)%3]
								head = &gen.AllotVar{V: gen.V("p")}
							case strings.HasSuffix(outer, "%"):
								head = &gen.AllotLit{Lit: &gen.Percent{Text: outer}}
							default:
								head = &gen.AllotLit{Lit: &gen.Ratio{Text: outer}}
							}
							lit := func(t string) gen.Allot {
								if strings.HasSuffix(t, "%") {
									return &gen.AllotLit{Lit: &gen.Percent{Text: t}}
								}
								return &gen.AllotLit{Lit: &gen.Ratio{Text: t}}
							}
							sc := &gen.Script{Vars: append([]*gen.VarDecl{{Type: "monetary", Name: "n"}}, vars...)}
							if side == 0 {
								in := &gen.DstAllot{}
								for j, t := range inner {
									in.Items = append(in.Items, &gen.DstAllotItem{A: lit(t), To: gen.To(gen.DA(fmt.Sprintf("x%d", j)))})
								}
								items := []*gen.DstAllotItem{{A: head, To: gen.To(in)}, {A: &gen.AllotRemaining{}, To: gen.To(gen.DA("z"))}}
								if pos == 1 && outer != "1/1" && outer != "100%" {
									// the nested clause comes second, after a clause that takes the rest
									items = []*gen.DstAllotItem{{A: &gen.AllotRemaining{}, To: gen.To(gen.DA("z"))}, {A: head, To: gen.To(in)}}
								}
								sc.Stmts = []gen.Stmt{&gen.Send{Sent: &gen.SentValue{E: gen.V("n")}, Src: gen.SA("world"), Dst: &gen.DstAllot{Items: items}}}
							} else {
								in := &gen.SrcAllot{}
								for range inner {
									in.Items = append(in.Items, &gen.SrcAllotItem{From: gen.SA("world")})
								}
								for j, t := range inner {
									in.Items[j].A = lit(t)
								}
								items := []*gen.SrcAllotItem{{A: head, From: in}, {A: &gen.AllotRemaining{}, From: gen.SA("world")}}
								if pos == 1 {
									items = []*gen.SrcAllotItem{{A: &gen.AllotRemaining{}, From: gen.SA("world")}, {A: head, From: in}}
								}
								sc.Stmts = []gen.Stmt{&gen.Send{Sent: &gen.SentValue{E: gen.V("n")}, Src: &gen.SrcAllot{Items: items}, Dst: gen.DA("z")}}
							}
							cs := mkCase(sc, vals, nil)
							e, ok := run(c, cs)
							if !ok {
								continue
							}
							c.Count("nested_bad_sums", 1)
							if e.out.Panicked {
								c.Violation("panic:"+e.out.Frame, "panic: "+e.out.PanicVal, e.input())
								return
							}
							if e.out.OK() || e.out.Class != model.EAllotmentSum {
								c.Violation("nested-bad-sum-accepted", fmt.Sprintf("the inner portions %v do not add up to one (outer clause %s, total %s) but the outcome is %s", inner, outer, tot, e.out.Summary()), e.input())
								return
							}
							c.Distinct(fmt.Sprintf("nested|%d|%d|%s|%d|%d", oi, ii, tot, side, pos))
						}
					}
				}
			}
		}
	}
	// ---- percentages with every number of decimals from 1 to 40 ----
	decLens := []int{80, 100, 128, 200, 500, 1000, 1023, 1024, 1025, 2000}
	for d := 1; d <= 70; d++ {
		decLens = append(decLens, d)
	}
	for _, d := range decLens {
		for rep := 0; rep < c.N(6, 60); rep++ {
			id := fmt.Sprintf("decimals/%d/%d", d, rep)
			if !c.Want(45_000_000+d*100+rep, id) {
				continue
			}
			r := c.Rng(id)
			intPart := r.Intn(100)
			frac := randDigits(r, d)
			if rep%3 == 0 {
				frac = strings.Repeat("0", d) // e.g. 25.000…0%
			}
			text := fmt.Sprintf("%d.%s%%", intPart, frac)
			p, ok := model.ParsePercentText(text)
			if !ok {
				continue
			}
			ps := []*big.Rat{p, new(big.Rat).Sub(big.NewRat(1, 1), p)}
			side := r.Intn(2)
			var head gen.Allot = &gen.AllotLit{Lit: &gen.Percent{Text: text}}
			var vars []*gen.VarDecl
			vals := map[string]string{}
			if rep%2 == 1 {
				vars = []*gen.VarDecl{{Type: "portion", Name: "p"}}
				vals["p"] = text
				head = &gen.AllotVar{V: gen.V("p")}
			}
			sc := allotScript([]gen.Allot{head, &gen.AllotRemaining{}}, side, vars)
			total := gen.SmallOrBig(r, 30)
			if rep%4 == 2 && d <= 70 {
				total = new(big.Int).Exp(big.NewInt(10), big.NewInt(int64(d+2)), nil) // exact shares
			}
			vals["n"] = "USD " + total.String()
			cs := mkCase(sc, vals, nil)
			e, ok2 := run(c, cs)
			if !ok2 {
				if e.parse.Panicked {
					c.Violation("panic:parse:"+e.parse.Frame, fmt.Sprintf("parsing a percentage with %d decimals panics: %s", d, e.parse.PanicVal), e.input())
					return
				}
				continue
			}
			if !e.out.OK() {
				c.Violation("allot-failed", fmt.Sprintf("a valid allotment (%s, %d decimals) failed: %s (%v)", text, d, e.out.Summary(), e.out.Err), e.input())
				return
			}
			shares := observeShares(e, 2, side)
			c.Count("shares_checked", 2)
			c.Count("decimal_length_cases", 1)
			if msg := checkShares(ps, total, shares); msg != "" {
				c.Violation("shares", fmt.Sprintf("%s; portion %s (%d decimals) total %s shares %v", msg, text, d, total, shares), e.input())
				return
			}
			c.Distinct(fmt.Sprintf("dec|%d|%d|%d", d, side, rep%4))
		}
	}
	// ---- random ----
	n := c.N(30000, 600000)
	base := 50_000_000
	for i := 0; i < n; i++ {
		id := "rand/" + itoa(i)
		if !c.Want(base+i, id) {
			continue
		}
		r := c.Rng(id)
		k := r.Range(1, 5)
		heads, ps, vars, vals, sumOK := randomPortions(r, k)
		side := r.Intn(2)
		sc := allotScript(heads, side, vars)
		total := gen.SmallOrBig(r, 40)
		if r.Chance(1, 5) {
			total = new(big.Int).Exp(big.NewInt(10), big.NewInt(int64(r.Range(20, 40))), nil)
			total.Add(total, big.NewInt(int64(r.Intn(1000))))
		}
		if r.Chance(1, 4) {
			// totals just below a power of two
			total = new(big.Int).Lsh(big.NewInt(1), uint([]int{16, 31, 32, 33, 63, 64}[r.Intn(6)]))
			total.Sub(total, big.NewInt(int64(1+r.Intn(64))))
		}
		vals["n"] = "USD " + total.String()
		// a second statement using the same portions (and portion variables) again
		twice := sumOK && r.Chance(1, 2)
		side2 := r.Intn(2)
		total2 := gen.SmallOrBig(r, 30)
		if twice {
			secondUse(sc, heads, side2)
			vals["n2"] = "USD " + total2.String()
		}
		cs := mkCase(sc, vals, nil)
		e, ok := run(c, cs)
		if !ok {
			continue
		}
		if !sumOK {
			// a portion variable above 100% is rejected as such before the sum is looked at
			varAboveOne := false
			for _, d := range vars {
				if r, _ := model.PortionOfText(vals[d.Name]); r != nil && r.Cmp(one) > 0 {
					varAboveOne = true
				}
			}
			if e.out.OK() || !(e.out.Class == model.EAllotmentSum || (varAboveOne && e.out.Class == model.EBadPortion)) {
				c.Violation("bad-sum-accepted", fmt.Sprintf("portions %v do not add up to one but the outcome is %s", ps, e.out.Summary()), e.input())
				return
			}
			c.Count("rejected_bad_sum", 1)
			c.Distinct("badsum|" + fmt.Sprint(ps))
			continue
		}
		if !e.out.OK() {
			c.Violation("allot-failed", fmt.Sprintf("a valid allotment failed: %s (%v)", e.out.Summary(), e.out.Err), e.input())
			return
		}
		shares := observeShares(e, k, side)
		c.Count("shares_checked", k)
		if msg := checkShares(ps, total, shares); msg != "" {
			c.Violation("shares", fmt.Sprintf("%s; portions %v total %s shares %v", msg, ps, total, shares), e.input())
			return
		}
		if twice {
			shares2 := observeSharesP(e, k, side2, "e")
			c.Count("shares_checked", k)
			c.Count("second_use_of_the_same_portions", 1)
			if msg := checkShares(ps, total2, shares2); msg != "" {
				c.Violation("shares-second-use", fmt.Sprintf("second use of the same portions: %s; portions %v total %s shares %v", msg, ps, total2, shares2), e.input())
				return
			}
		}
		// the same parse result run again with the portion variables holding other values
		if len(vars) >= 1 && !twice {
			var idxs []int
			for _, d := range vars {
				var j int
				fmt.Sscanf(d.Name, "p%d", &j)
				idxs = append(idxs, j)
			}
			cs2 := *cs
			cs2.Vars = map[string]string{}
			for k2, v := range cs.Vars {
				cs2.Vars[k2] = v
			}
			ps2 := append([]*big.Rat(nil), ps...)
			wantReject := false
			hasRemaining := false
			for _, h := range heads {
				if _, ok := h.(*gen.AllotRemaining); ok {
					hasRemaining = true
				}
			}
			if len(idxs) >= 2 && r.Bool() {
				a, b := idxs[0], idxs[1]
				cs2.Vars[vars[0].Name], cs2.Vars[vars[1].Name] = cs.Vars[vars[1].Name], cs.Vars[vars[0].Name]
				ps2[a], ps2[b] = ps[b], ps[a]
			} else if !hasRemaining && ps[idxs[0]].Cmp(one) < 0 {
				// another valid portion: the sum is no longer one
				cs2.Vars[vars[0].Name] = "1/1"
				wantReject = true
			} else {
				cs2.Vars = nil
			}
			if cs2.Vars != nil {
				o2, _ := real.RunCase(e.parse.Result, &cs2, real.Exact)
				c.Eval()
				e2 := &exec{c: &cs2, text: e.text, parse: e.parse, out: o2, firstVars: cs.Vars}
				c.Count("second_runs_of_a_parse_result_with_other_portions", 1)
				switch {
				case o2.Panicked:
					c.Violation("panic:"+o2.Frame, "second run of the parse result panics: "+o2.PanicVal, e2.input())
					return
				case wantReject:
					if o2.OK() || o2.Class != model.EAllotmentSum {
						c.Violation("bad-sum-accepted-second-run", fmt.Sprintf("second run with %s = 1/1: the portions no longer add up to one but the outcome is %s", vars[0].Name, o2.Summary()), e2.input())
						return
					}
				case !o2.OK():
					c.Violation("allot-failed-second-run", fmt.Sprintf("second run with swapped portion values failed: %s (%v)", o2.Summary(), o2.Err), e2.input())
					return
				default:
					if msg := checkShares(ps2, total, observeShares(e2, k, side)); msg != "" {
						c.Violation("shares-second-run", fmt.Sprintf("second run of one parse result with other portion values: %s; portions %v total %s", msg, ps2, total), e2.input())
						return
					}
				}
			}
		}
		c.Count("random_cases", 1)
		if total.Cmp(big.NewInt(1<<62)) > 0 {
			c.Count("random_cases_total_beyond_64_bits", 1)
		}
		c.Distinct(fmt.Sprintf("r%d|%v|%s", side, ps, new(big.Int).Mod(total, big.NewInt(1000))))
		if c.WantSample() && i%13 == 1 {
			c.Sample(map[string]any{"case": id, "input": e.input(), "portions": fmt.Sprint(ps), "shares": fmt.Sprint(shares)})
		}
	}
}

func isPow10(n int64) bool {
	for n > 1 {
		if n%10 != 0 {
			return false
		}
		n /= 10
	}
	return n == 1
}

// compositions lists every way to write n as an ordered sum of k non-negative integers.
func compositions(n, k int) [][]int {
	if k == 1 {
		return [][]int{{n}}
	}
	var out [][]int
	for first := 0; first <= n; first++ {
		for _, rest := range compositions(n-first, k-1) {
			out = append(out, append([]int{first}, rest...))
		}
	}
	return out
}

// randomPortions builds k clause heads written as ratios, percentages (with decimals) or
// portion variables, optionally with `remaining`, summing to one — or deliberately not.
func randomPortions(r *rng.R, k int) (heads []gen.Allot, ps []*big.Rat, vars []*gen.VarDecl, vals map[string]string, sumOK bool) {
	vals = map[string]string{}
	// pick a denominator family
	var den int64
	switch r.Intn(8) {
	case 6, 7:
		// terms just below a power of two (16, 31, 32, 62 bits)
		den = int64(1)<<uint([]int{16, 31, 32, 62}[r.Intn(4)]) - 1 - int64(r.Intn(64))
	case 4:
		den = int64(pow(10, r.Range(8, 16))) // percentages with 6–14 decimals
	case 5:
		den = int64(r.U64()%999999999999) + 3000000000 // many-digit ratios
	case 0:
		den = int64(r.Range(1, 30))
	case 1:
		den = 100
	case 2:
		den = 100000 // percentages with three decimals
	default:
		den = int64(r.Range(1, 1000))
	}
	parts := make([]int64, k)
	left := den
	for i := 0; i < k-1; i++ {
		parts[i] = int64(r.U64() % uint64(left+1))
		left -= parts[i]
	}
	parts[k-1] = left
	sumOK = true
	rem := -1
	if r.Chance(2, 5) {
		rem = r.Intn(k)
		if r.Chance(2, 3) {
			rem = k - 1
		}
	} else if r.Chance(1, 6) && den > 1 {
		// break the sum
		sumOK = false
		j := r.Intn(k)
		if parts[j] > 0 && r.Bool() {
			parts[j]--
		} else {
			parts[j]++
		}
	}
	heads = make([]gen.Allot, k)
	ps = make([]*big.Rat, k)
	for i := range parts {
		ps[i] = big.NewRat(parts[i], den)
		if i == rem {
			heads[i] = &gen.AllotRemaining{}
			continue
		}
		txt := fmt.Sprintf("%d/%d", parts[i], den)
		isPct := false
		if den == 100 && r.Chance(2, 3) {
			txt, isPct = fmt.Sprintf("%d%%", parts[i]), true
		} else if den == 100000 && r.Chance(2, 3) {
			txt, isPct = fmt.Sprintf("%d.%03d%%", parts[i]/1000, parts[i]%1000), true
		} else if den >= 100000000 && den%100000000 == 0 && isPow10(den) && r.Chance(2, 3) {
			// p.qqqq…% with (digits(den)-3) decimals
			dec := len(fmt.Sprint(den)) - 3
			unit := den / 100
			txt, isPct = fmt.Sprintf("%d.%0*d%%", parts[i]/unit, dec, parts[i]%unit), true
		} else if r.Chance(1, 8) {
			txt = strings.Replace(txt, "/", " / ", 1)
		}
		if r.Chance(1, 4) {
			name := fmt.Sprintf("p%d", i)
			vars = append(vars, &gen.VarDecl{Type: "portion", Name: name})
			vals[name] = txt
			heads[i] = &gen.AllotVar{V: gen.V(name)}
		} else if isPct {
			heads[i] = &gen.AllotLit{Lit: &gen.Percent{Text: txt}}
		} else {
			heads[i] = &gen.AllotLit{Lit: &gen.Ratio{Text: txt}}
		}
	}
	return
}
