// Engine "cli": property C20 (the numscript binary reports exactly what the library computes).
package main

import (
	"bytes"
	"encoding/json"
	"fmt"
	"math/big"
	"os"
	"os/exec"
	"path/filepath"
	"sort"
	"strconv"
	"strings"
	"unicode/utf16"
	"unicode/utf8"

	"github.com/formancehq/numscript/internal/analysis"
	"github.com/formancehq/numscript/verifharness/fw"
	"github.com/formancehq/numscript/verifharness/gen"
	"github.com/formancehq/numscript/verifharness/real"
	"github.com/formancehq/numscript/verifharness/rng"
)

func main() {
	fw.Register(propC20())
	fw.Main()
}

func itoa(i int) string { return strconv.Itoa(i) }

func propC20() *fw.Prop {
	return &fw.Prop{
		ID: "C20", Level: "exploration",
		Rule:        "process monitor: the numscript binary is built from the working tree by ./check; every case runs it as child processes and compares with the in-process library on the same inputs. `check FILE`: exit status ≠ 0 ⇔ analysis.CheckSource reports ≥ 1 error-severity diagnostic, and every diagnostic's position (FILE:line:character, 0- or 1-based accepted) and message appear on stdout. `run --output-format json` through each input channel {--raw, --stdin, script file + -v/-b/-m files}: on library success exit 0 and the decoded stdout (UseNumber) equals the library's postings (in order, amounts as exact integers), transaction metadata and account metadata; on library error (incl. parse errors) exit ≠ 0 and stderr contains the library's error message. Script classes: clean, warning-only, erroneous (name/type edits), unparsable, succeeding and failing at run time, amounts beyond 2^64, metadata, overdraft flag. Distinct = (script class, channel, outcome class). Added later: byte order marks, '%' in strings, odd asset names, input JSON as other encoders write it (escaped slashes, \\uXXXX, surrogate pairs), files of the file channel in other notations (1e+21, 10.0, BOM: the CLI may refuse them but must not answer from other data), scripts reading input metadata, files with 1..4096 error diagnostics, the parse error message on stderr.",
		Assumptions: []string{"harness generators; Go runtime and os/exec; the binary under test is $VERIF_NS_BIN built by ./check from /repo's working tree", "numscript.Parse + RunWithFeatureFlags over the bundled StaticStore is 'what the library computes'"},
		Require:     []string{"processes_started", "check_runs_with_errors", "check_runs_clean", "run_success_compared", "run_failure_compared", "channel_raw", "channel_stdin", "channel_files", "amounts_beyond_64_bits"},
		Run:         runC20,
	}
}

type procResult struct {
	code   int
	stdout string
	stderr string
}

func runProc(c *fw.Ctx, stdin string, args ...string) (procResult, error) {
	return runProcF(c, stdin, "", args...)
}

// runProcF: stdinFile != "" connects the child's stdin to that regular file (a shell's
// `< file`); otherwise stdin (if any) is fed through a pipe.
func runProcF(c *fw.Ctx, stdin, stdinFile string, args ...string) (procResult, error) {
	bin := os.Getenv("VERIF_NS_BIN")
	cmd := exec.Command(bin, args...)
	var so, se bytes.Buffer
	cmd.Stdout, cmd.Stderr = &so, &se
	if stdinFile != "" {
		f, err := os.Open(stdinFile)
		if err != nil {
			return procResult{}, err
		}
		defer f.Close()
		cmd.Stdin = f
	} else if stdin != "" {
		cmd.Stdin = strings.NewReader(stdin)
	}
	// keep the child from talking to the network (sentry): there is none, and it must not wait
	cmd.Env = append(os.Environ(), "SENTRY_DSN=", "NO_COLOR=1")
	err := cmd.Run()
	c.Count("processes_started", 1)
	res := procResult{stdout: so.String(), stderr: se.String()}
	if err != nil {
		if ee, ok := err.(*exec.ExitError); ok {
			res.code = ee.ExitCode()
			return res, nil
		}
		return res, err
	}
	return res, nil
}

// respellJSON rewrites the string literals of a JSON text with equivalent escapes: \/ for /,
// \u00XX for some ASCII characters, \uXXXX (surrogate pairs beyond the BMP) for non-ASCII ones.
func respellJSON(r *rng.R, js string) string {
	var b strings.Builder
	inStr := false
	for i := 0; i < len(js); {
		ch := js[i]
		if !inStr {
			if ch == '"' {
				inStr = true
			}
			b.WriteByte(ch)
			i++
			continue
		}
		switch {
		case ch == '\\':
			// an escape written by the encoder: kept
			n := 2
			if i+1 < len(js) && js[i+1] == 'u' {
				n = 6
			}
			if i+n > len(js) {
				n = len(js) - i
			}
			b.WriteString(js[i : i+n])
			i += n
			continue
		case ch == '"':
			inStr = false
			b.WriteByte(ch)
			i++
			continue
		case ch == '/':
			b.WriteString("\\/")
			i++
			continue
		case ch < 0x80:
			if r.Chance(1, 10) {
				fmt.Fprintf(&b, "\\u%04x", ch)
			} else {
				b.WriteByte(ch)
			}
			i++
			continue
		}
		ru, size := utf8.DecodeRuneInString(js[i:])
		if ru == utf8.RuneError && size == 1 {
			b.WriteByte(ch)
			i++
			continue
		}
		if ru > 0xFFFF {
			h, l := utf16.EncodeRune(ru)
			fmt.Fprintf(&b, "\\u%04x\\u%04x", h, l)
		} else {
			fmt.Fprintf(&b, "\\u%04X", ru)
		}
		i += size
	}
	return b.String()
}

func mustJSON(v any) string {
	b, err := json.Marshal(v)
	if err != nil {
		panic(err)
	}
	return string(b)
}

// balancesJSON renders balances with exact integers (never through float64).
func balancesJSON(cs *gen.Case) string {
	var b strings.Builder
	b.WriteString("{")
	accts := make([]string, 0, len(cs.Balances))
	for a := range cs.Balances {
		accts = append(accts, a)
	}
	sort.Strings(accts)
	for i, a := range accts {
		if i > 0 {
			b.WriteString(",")
		}
		b.WriteString(mustJSON(a) + ":{")
		assets := make([]string, 0)
		for as := range cs.Balances[a] {
			assets = append(assets, as)
		}
		sort.Strings(assets)
		for j, as := range assets {
			if j > 0 {
				b.WriteString(",")
			}
			b.WriteString(mustJSON(as) + ":" + cs.Balances[a][as].String())
		}
		b.WriteString("}")
	}
	b.WriteString("}")
	return b.String()
}

func rawInput(text string, cs *gen.Case) string {
	vars := cs.Vars
	if vars == nil {
		vars = map[string]string{}
	}
	meta := cs.Meta
	if meta == nil {
		meta = map[string]map[string]string{}
	}
	return `{"script":` + mustJSON(text) + `,"variables":` + mustJSON(vars) + `,"balances":` + balancesJSON(cs) + `,"metadata":` + mustJSON(meta) + `}`
}

type cliOut struct {
	Postings []struct {
		Source      string      `json:"source"`
		Destination string      `json:"destination"`
		Amount      json.Number `json:"amount"`
		Asset       string      `json:"asset"`
	} `json:"postings"`
	TxMeta       map[string]json.RawMessage   `json:"txMeta"`
	AccountsMeta map[string]map[string]string `json:"accountsMeta"`
}

func summarizeCLI(stdout string) (string, error) {
	dec := json.NewDecoder(strings.NewReader(stdout))
	dec.UseNumber()
	var o cliOut
	if err := dec.Decode(&o); err != nil {
		return "", err
	}
	var b strings.Builder
	for _, p := range o.Postings {
		fmt.Fprintf(&b, "%s->%s %s %s; ", p.Source, p.Destination, p.Asset, p.Amount.String())
	}
	b.WriteString("| tx:")
	keys := make([]string, 0)
	for k := range o.TxMeta {
		keys = append(keys, k)
	}
	sort.Strings(keys)
	for _, k := range keys {
		fmt.Fprintf(&b, "%s=%s,", k, string(o.TxMeta[k]))
	}
	b.WriteString("| acct:")
	as := make([]string, 0)
	for a := range o.AccountsMeta {
		as = append(as, a)
	}
	sort.Strings(as)
	for _, a := range as {
		ks := make([]string, 0)
		for k := range o.AccountsMeta[a] {
			ks = append(ks, k)
		}
		sort.Strings(ks)
		for _, k := range ks {
			fmt.Fprintf(&b, "%s.%s=%s,", a, k, o.AccountsMeta[a][k])
		}
	}
	return b.String(), nil
}

func summarizeLib(o *real.Outcome) string {
	var b strings.Builder
	for _, p := range o.Postings {
		fmt.Fprintf(&b, "%s->%s %s %s; ", p.Src, p.Dst, p.Asset, p.Amt.String())
	}
	b.WriteString("| tx:")
	keys := make([]string, 0)
	for k := range o.TxMeta {
		keys = append(keys, k)
	}
	sort.Strings(keys)
	for _, k := range keys {
		// every value serialises as the JSON string of its text (C13); rendered here from the value,
		// not through the library's own encoder
		js, _ := json.Marshal(o.TxMeta[k].String())
		fmt.Fprintf(&b, "%s=%s,", k, string(js))
	}
	b.WriteString("| acct:")
	as := make([]string, 0)
	for a := range o.AcctMeta {
		as = append(as, a)
	}
	sort.Strings(as)
	for _, a := range as {
		ks := make([]string, 0)
		for k := range o.AcctMeta[a] {
			ks = append(ks, k)
		}
		sort.Strings(ks)
		for _, k := range ks {
			fmt.Fprintf(&b, "%s.%s=%s,", a, k, o.AcctMeta[a][k])
		}
	}
	return b.String()
}

func typedCfg(i int) gen.LCfg {
	b := gen.DefaultLCfg()
	b.BigLiterals = true
	b.PWorld, b.PUnbounded, b.PMetaStmt = 25, 25, 20
	switch i % 4 {
	case 1:
		b.PBig, b.PVarAmt = 50, 50
	case 2:
		b.POriginVar, b.PVarAcct = 40, 50
	case 3:
		b.PMetaStmt, b.PSave, b.PBig = 45, 20, 60
	}
	return b
}

func runC20(c *fw.Ctx) {
	if os.Getenv("VERIF_NS_BIN") == "" {
		fmt.Fprintln(os.Stderr, "VERIF_NS_BIN is not set (run through ./check)")
		os.Exit(2)
	}
	dir, err := os.MkdirTemp(os.Getenv("VERIF_SCRATCH"), "cli")
	if err != nil {
		panic(err)
	}
	defer os.RemoveAll(dir)
	// files with a given number of error diagnostics (exit statuses are small integers)
	for k, ne := range []int{1, 2, 127, 128, 255, 256, 257, 511, 512, 513, 1024, 4096} {
		id := "errors/" + itoa(ne)
		if !c.Want(10_000_000+k, id) {
			continue
		}
		if c.Quick && ne > 1024 {
			continue
		}
		var b strings.Builder
		for j := 0; j < ne; j++ {
			fmt.Fprintf(&b, "send [USD 1] (source = $undeclared_%d destination = @b)\n", j)
		}
		cs := &gen.Case{Script: &gen.Script{}, Vars: map[string]string{}, Balances: map[string]map[string]*big.Int{}, Meta: map[string]map[string]string{}, Flags: map[string]bool{}, Tags: map[string]bool{}}
		c.Count("files_with_many_errors", 1)
		if !oneCase(c, c.Rng(id), dir, id, "many-errors", b.String(), cs) {
			return
		}
	}
	// several diagnostics with the same place and the same message
	for k, text := range []string{
		"send [USD 1] (source = @a destination = { remaining to @b remaining to @c 1/2 to @d })",
		"send [USD 1] (source = { remaining from @a remaining from @b remaining from @c 1/3 from @d } destination = @e)",
		"send [USD 1] (source = @a destination = { remaining kept remaining kept remaining kept 0/1 to @d })\nsend [USD 1] (source = @a destination = { remaining to @b remaining to @c 1/1 to @d })",
	} {
		id := "same-diagnostic-twice/" + itoa(k)
		if !c.Want(10_100_000+k, id) {
			continue
		}
		cs := &gen.Case{Script: &gen.Script{}, Vars: map[string]string{}, Balances: map[string]map[string]*big.Int{}, Meta: map[string]map[string]string{}, Flags: map[string]bool{}, Tags: map[string]bool{}}
		c.Count("files_with_repeated_diagnostics", 1)
		if !oneCase(c, c.Rng(id), dir, id, "repeated-diagnostics", text, cs) {
			return
		}
	}
	n := c.N(2000, 30000)
	for i := 0; i < n; i++ {
		id := "case/" + itoa(i)
		if !c.Want(i, id) {
			continue
		}
		r := c.Rng(id)
		cs := gen.GenLedger(r, typedCfg(i))
		class := "typed"
		text := gen.Print(cs.Script, gen.Layout{Kind: r.Intn(gen.NumLayouts), R: r}).Text
		switch r.Intn(6) {
		case 0: // unparsable
			text = gen.MutateBytes(r, text)
			class = "byte-damaged"
		case 1: // token-level damage (often parses with errors, sometimes still valid)
			text = gen.MutateTokens(r, gen.PrintCanonical(cs.Script).TokText)
			class = "token-damaged"
		case 2: // erroneous for the checker: remove a declaration / break a type
			if len(cs.Script.Vars) > 0 {
				k := r.Intn(len(cs.Script.Vars))
				if r.Bool() {
					cs.Script.Vars = append(cs.Script.Vars[:k:k], cs.Script.Vars[k+1:]...)
					class = "undeclared-variable"
				} else {
					cs.Script.Vars[k].Type = "nonsense"
					class = "unknown-type"
				}
				text = gen.PrintCanonical(cs.Script).Text
			}
		}
		if class == "typed" && r.Chance(1, 4) {
			// a variable whose value comes from the metadata given to the command
			var plain []*gen.VarDecl
			for _, d := range cs.Script.Vars {
				if d.Origin == nil {
					plain = append(plain, d)
				}
			}
			if len(plain) > 0 {
				d := plain[r.Intn(len(plain))]
				acct, key := r.Pick("cfg", "a", "users:001"), r.Pick("k", "limit", "a key")
				d.Origin = &gen.Call{Name: "meta", Args: []gen.Expr{gen.A(acct), gen.S(key)}}
				if cs.Meta[acct] == nil {
					cs.Meta[acct] = map[string]string{}
				}
				cs.Meta[acct][key] = cs.Vars[d.Name]
				delete(cs.Vars, d.Name)
				text = gen.Print(cs.Script, gen.Layout{Kind: r.Intn(gen.NumLayouts), R: r}).Text
				class = "typed+input-metadata"
				c.Count("scripts_reading_input_metadata", 1)
			}
		}
		if class == "typed" && r.Chance(1, 8) {
			// a text that starts with a byte order mark (what some editors write at the start of a file)
			text = "\ufeff" + text
			class = "typed+bom"
		}
		if class == "typed" && r.Chance(1, 8) {
			// strings with printf-like contents reaching the metadata
			s := r.Pick("fee: 2.5% of the amount", "%d %s %v", "100%", "%!", "50%% off", "%")
			cs.Script.Stmts = append(cs.Script.Stmts, &gen.Call{Name: "set_tx_meta", Args: []gen.Expr{gen.S("note"), gen.S(s)}},
				&gen.Call{Name: "set_account_meta", Args: []gen.Expr{gen.A("a"), gen.S(s), gen.S(s)}})
			text = gen.PrintCanonical(cs.Script).Text
			class = "typed+percent-strings"
		}
		if class == "typed" && r.Chance(1, 6) {
			// a monetary / asset value whose asset name needs escaping in JSON (assets that arrive
			// through variables are not restricted to the literal grammar)
			weird := r.Pick(`US\u0041D`, `US"D`, "US\tD", `A\B`, "é/2", `<USD>`, `US\"D`)
			cs.Script.Vars = append(cs.Script.Vars, &gen.VarDecl{Type: "monetary", Name: "weird"})
			cs.Vars["weird"] = weird + " 10"
			cs.Script.Stmts = append(cs.Script.Stmts, &gen.Call{Name: "set_tx_meta", Args: []gen.Expr{gen.S("weird"), gen.V("weird")}},
				&gen.Call{Name: "set_account_meta", Args: []gen.Expr{gen.A("a"), gen.S("weird"), gen.V("weird")}})
			text = gen.PrintCanonical(cs.Script).Text
			class = "typed+odd-asset"
		}
		if !oneCase(c, r, dir, id, class, text, cs) {
			return
		}
	}
}

func oneCase(c *fw.Ctx, r *rng.R, dir, id, class, text string, cs *gen.Case) bool {
	input := func(extra map[string]any) any {
		d := cs.Describe()
		d["script"], d["class"] = text, class
		for k, v := range extra {
			d[k] = v
		}
		return d
	}
	script := filepath.Join(dir, "script.num")
	if err := os.WriteFile(script, []byte(text), 0o644); err != nil {
		panic(err)
	}
	// ---- check ----
	var lib analysis.CheckResult
	if p, _, _ := fw.Catch(func() { lib = analysis.CheckSource(text) }); p {
		c.Count("library_check_panicked_skipped", 1)
	} else {
		pr, err := runProc(c, "", "check", script)
		if err != nil {
			panic(err)
		}
		c.Eval()
		errs := countErrors(lib.Diagnostics) // counted here, not by the library's own helper
		ex := map[string]any{"command": "check", "exit": pr.code, "stdout": pr.stdout, "stderr": pr.stderr}
		if (errs > 0) != (pr.code != 0) {
			c.Violation("check-exit-status", fmt.Sprintf("`numscript check` exits with %d but the library reports %d error(s)", pr.code, errs), input(ex))
			return false
		}
		if errs > 0 {
			c.Count("check_runs_with_errors", 1)
		} else {
			c.Count("check_runs_clean", 1)
			if len(lib.Diagnostics) > 0 {
				c.Count("check_runs_warning_only", 1)
			}
		}
		for _, d := range lib.Diagnostics {
			l, ch := d.Range.Start.Line, d.Range.Start.Character
			found := false
			for _, cand := range []string{fmt.Sprintf("%s:%d:%d", script, l, ch), fmt.Sprintf("%s:%d:%d", script, l+1, ch+1), fmt.Sprintf("%s:%d:%d", script, l+1, ch)} {
				if strings.Contains(pr.stdout, cand) {
					found = true
				}
			}
			msg := ""
			fw.Catch(func() { msg = d.Kind.Message() })
			if !found || !strings.Contains(pr.stdout, msg) {
				c.Violation("check-diagnostic-missing", fmt.Sprintf("diagnostic at %d:%d %q is not printed with its position", l, ch, msg), input(ex))
				return false
			}
			c.Count("check_diagnostics_matched", 1)
		}
		// every diagnostic, also those that have the same place and message as another one
		if n := strings.Count(pr.stdout, script+":"); n < len(lib.Diagnostics) {
			c.Violation("check-diagnostic-missing:count", fmt.Sprintf("the library reports %d diagnostics, `numscript check` prints %d", len(lib.Diagnostics), n), input(ex))
			return false
		}
		c.Distinct(fmt.Sprintf("check|%s|%v|%d", class, errs > 0, len(lib.Diagnostics)))
	}
	// ---- run ----
	po := real.Parse(text)
	if po.Panicked {
		c.Count("library_parse_panicked_skipped", 1)
		return true
	}
	// the files of the file channel written the way other programs write them: an amount beyond
	// 10^21 in exponent notation (what JavaScript prints) or with a decimal point, a byte order
	// mark in front of the JSON. The CLI may refuse such a file; it must not answer as if the file
	// held something else.
	notation := ""
	if r.Chance(1, 5) {
		notation = r.Pick("exponent", "decimal-point", "bom-variables", "bom-balances")
		if cs.Balances["zz:big"] == nil {
			cs.Balances["zz:big"] = map[string]*big.Int{}
		}
		cs.Balances["zz:big"]["USD"], _ = new(big.Int).SetString("1000000000000000000000", 10)
		class += "+" + notation
		c.Count("file_channel_in_another_notation", 1)
	}
	var libOut *real.Outcome
	parseFailed := len(po.Errors) > 0
	if !parseFailed {
		libOut, _ = real.RunCase(po.Result, cs, real.Static)
		if libOut.Panicked {
			c.Count("library_run_panicked_skipped", 1)
			return true
		}
	}
	flagArgs := []string{}
	if cs.Flags["experimental-overdraft-function"] {
		flagArgs = append(flagArgs, "--experimental-overdraft-function")
	}
	raw := rawInput(text, cs)
	vjs, mjs := mustJSON(cs.Vars), mustJSON(cs.Meta)
	if r.Chance(1, 3) {
		// the same JSON documents as another encoder writes them (\/ for /, \uXXXX escapes and
		// surrogate pairs instead of the characters)
		raw, vjs, mjs = respellJSON(r, raw), respellJSON(r, vjs), respellJSON(r, mjs)
		class += "+json-escapes"
		c.Count("inputs_with_other_json_escapes", 1)
	}
	vf, bf, mf := filepath.Join(dir, "v.json"), filepath.Join(dir, "b.json"), filepath.Join(dir, "m.json")
	bjs := balancesJSON(cs)
	switch notation {
	case "exponent":
		bjs = strings.Replace(bjs, "1000000000000000000000", "1e+21", 1)
	case "decimal-point":
		bjs = strings.Replace(bjs, "1000000000000000000000", "1000000000000000000000.0", 1)
	case "bom-variables":
		vjs = "\ufeff" + vjs
	case "bom-balances":
		bjs = "\ufeff" + bjs
	}
	os.WriteFile(vf, []byte(vjs), 0o644)
	os.WriteFile(bf, []byte(bjs), 0o644)
	os.WriteFile(mf, []byte(mjs), 0o644)
	rf := filepath.Join(dir, "raw.json")
	os.WriteFile(rf, []byte(raw), 0o644)
	// several channels in one command: the script by path, the variables by file, balances and
	// metadata on stdin
	vf2 := filepath.Join(dir, "v2.json")
	os.WriteFile(vf2, []byte(mustJSON(cs.Vars)), 0o644)
	mixedStdin := `{"balances":` + balancesJSON(cs) + `,"metadata":` + mustJSON(cs.Meta) + `}`
	channels := []struct {
		name      string
		stdin     string
		stdinFile string
		args      []string
	}{
		{"raw", "", "", append([]string{"run", "--raw", raw, "--output-format", "json"}, flagArgs...)},
		{"stdin", raw, "", append([]string{"run", "--stdin", "--output-format", "json"}, flagArgs...)},
		{"stdin_file", "", rf, append([]string{"run", "--stdin", "--output-format", "json"}, flagArgs...)},
		{"files", "", "", append([]string{"run", script, "-v", vf, "-b", bf, "-m", mf, "--output-format", "json"}, flagArgs...)},
		{"mixed", mixedStdin, "", append([]string{"run", script, "-v", vf2, "--stdin", "--output-format", "json"}, flagArgs...)},
	}
	big := false
	for _, p := range libOutPostings(libOut) {
		if !p.Amt.IsInt64() {
			big = true
		}
	}
	for _, ch := range channels {
		if ch.name == "raw" && len(raw) > 100_000 {
			// a single command-line argument cannot be that long (the operating system's limit)
			c.Count("raw_channel_skipped_argument_too_long", 1)
			continue
		}
		pr, err := runProcF(c, ch.stdin, ch.stdinFile, ch.args...)
		if err != nil {
			panic(err)
		}
		c.Eval()
		c.Count("channel_"+ch.name, 1)
		ex := map[string]any{"command": "run", "channel": ch.name, "exit": pr.code, "stdout": pr.stdout, "stderr": pr.stderr}
		if ch.name == "files" && notation != "" {
			ex["file_notation"] = notation
			if pr.code != 0 {
				c.Count("files_in_another_notation_refused", 1)
				continue
			}
		}
		switch {
		case parseFailed:
			if pr.code == 0 {
				c.Violation("run-exit-status:parse-error", "the script has parse errors but `numscript run` exits with 0", input(ex))
				return false
			}
			if msg := po.Errors[0].Msg; !strings.Contains(pr.stderr, msg) && !strings.Contains(pr.stderr, "panic:") {
				c.Violation("run-parse-error-message", fmt.Sprintf("the library reports the parse error %q; stderr of `numscript run` (%s) does not contain it", msg, ch.name), input(ex))
				return false
			}
			c.Count("run_parse_error_compared", 1)
			c.Distinct("run|" + class + "|" + ch.name + "|parse-error")
		case libOut.Err != nil:
			ex["library_error"] = libOut.Err.Error()
			if pr.code == 0 {
				c.Violation("run-exit-status:error", fmt.Sprintf("the library fails with %q but `numscript run` (%s) exits with 0", libOut.Err.Error(), ch.name), input(ex))
				return false
			}
			if !strings.Contains(pr.stderr, libOut.Err.Error()) {
				c.Violation("run-error-message", fmt.Sprintf("the library fails with %q; stderr of `numscript run` (%s) does not contain it", libOut.Err.Error(), ch.name), input(ex))
				return false
			}
			if strings.TrimSpace(pr.stdout) != "" {
				c.Violation("run-output-with-error", fmt.Sprintf("the library fails but `numscript run` (%s) printed a result", ch.name), input(ex))
				return false
			}
			c.Count("run_failure_compared", 1)
			c.Distinct("run|" + class + "|" + ch.name + "|" + libOut.Class)
		default:
			want := summarizeLib(libOut)
			ex["library_result"] = want
			if pr.code != 0 {
				c.Violation("run-exit-status:success", fmt.Sprintf("the library succeeds but `numscript run` (%s) exits with %d", ch.name, pr.code), input(ex))
				return false
			}
			got, err := summarizeCLI(pr.stdout)
			if err != nil {
				c.Violation("run-output-not-json", fmt.Sprintf("stdout of `numscript run` (%s) is not the expected JSON: %v", ch.name, err), input(ex))
				return false
			}
			if got != want {
				c.Violation("run-result-differs:"+ch.name, fmt.Sprintf("`numscript run` (%s) printed %s ⏎ the library returns %s", ch.name, got, want), input(ex))
				return false
			}
			c.Count("run_success_compared", 1)
			if big {
				c.Count("amounts_beyond_64_bits", 1)
			}
			c.Distinct("run|" + class + "|" + ch.name + "|ok|" + strconv.FormatBool(big) + strconv.Itoa(len(libOut.TxMeta)))
		}
	}
	if c.WantSample() && r.Chance(1, 20) {
		c.Sample(map[string]any{"case": id, "input": input(nil), "channels": 3})
	}
	return true
}

func libOutPostings(o *real.Outcome) []real.Posting {
	if o == nil {
		return nil
	}
	return o.Postings
}

// countErrors counts the error-severity diagnostics.
func countErrors(ds []analysis.Diagnostic) int {
	n := 0
	for _, d := range ds {
		if d.Kind.Severity() == analysis.ErrorSeverity {
			n++
		}
	}
	return n
}
